#!/bin/sh
# Nothing to build: /venv already has grpclib, h2, protobuf, grpcio-tools, jinja2.  Sanity only.
set -e
cd "$(dirname "$0")"
/venv/bin/python - <<'PY'
import sys
sys.path.insert(0, ".")
import grpclib, h2, google.protobuf, grpc_tools, jinja2  # noqa
from sim import repo  # noqa
print("setup ok", sys.version.split()[0])
PY
mkdir -p replays evidence
