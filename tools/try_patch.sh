#!/bin/sh
# usage: try_patch.sh <patch.diff> [worktree]  -- applies the patch in a scratch worktree of /repo, runs the pinned suite, restores
W=${2:-/tmp/mw}
P=$(readlink -f "$1")
[ -d "$W" ] || git -C /repo worktree add -q --detach "$W" HEAD
cd "$W" || exit 2
git checkout -q -- . && git apply --whitespace=nowarn "$P" || { echo "$(basename $1): DOES NOT APPLY"; exit 2; }
R=$(PYTHONPATH=$W/src PYTHONDONTWRITEBYTECODE=1 timeout 400 /venv/bin/python -m pytest -q -p no:cacheprovider --timeout=30 --continue-on-collection-errors 2>&1 | tail -1)
git checkout -q -- .
echo "$(basename $1): $R"
