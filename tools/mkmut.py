#!/usr/bin/env python3
"""mkmut.py <prop> <name> <file-relative-to-repo> : reads OLD and NEW blocks from stdin separated by a line '=====';
creates /verif/mutants/<prop>/<name>.diff against the scratch worktree /tmp/mw (HEAD of /repo)."""
import subprocess, sys, os
prop, name, rel = sys.argv[1:4]
nth = int(sys.argv[4]) if len(sys.argv) > 4 else 1
W = '/tmp/mw'
if not os.path.isdir(W):
    subprocess.run(['git', '-C', '/repo', 'worktree', 'add', '-q', '--detach', W, 'HEAD'], check=True)
subprocess.run(['git', '-C', W, 'checkout', '-q', '--detach', subprocess.run(['git','-C','/repo','rev-parse','HEAD'],capture_output=True,text=True).stdout.strip()], check=True)
subprocess.run(['git', '-C', W, 'checkout', '-q', '--', '.'], check=True)
old, new = sys.stdin.read().split('\n=====\n')
new = new.rstrip('\n') + ('\n' if old.endswith('\n') else '')
p = os.path.join(W, rel)
s = open(p).read()
assert s.count(old) >= nth, f"{name}: OLD block occurs {s.count(old)} times"
idx = -1
for _ in range(nth):
    idx = s.index(old, idx + 1)
s = s[:idx] + new + s[idx + len(old):]
open(p, 'w').write(s)
d = subprocess.run(['git', '-C', W, 'diff'], capture_output=True, text=True).stdout
os.makedirs(f'/verif/mutants/{prop}', exist_ok=True)
open(f'/verif/mutants/{prop}/{name}.diff', 'w').write(d)
subprocess.run(['git', '-C', W, 'checkout', '-q', '--', '.'], check=True)
print('wrote', f'/verif/mutants/{prop}/{name}.diff', len(d.splitlines()), 'lines')
