#!/bin/sh
# run_on_patch.sh <patch.diff> <Cxx> [Cyy ...] : run quick checks against a scratch copy of /repo with the patch applied
P=$(readlink -f "$1"); shift
D=$(mktemp -d /tmp/bp-patched-XXXXXX)
( cd /repo && git ls-files src tests/inputs tests/util.py | while read f; do mkdir -p "$D/$(dirname $f)"; cp "$f" "$D/$f"; done )
( cd $D && git apply --whitespace=nowarn "$P" ) || { echo "patch does not apply"; rm -rf $D; exit 2; }
for c in "$@"; do
  VERIF_REPO=$D VERIF_SCRATCH_OUT=$D/_out /verif/check $c --tier quick 2>&1 | grep -v conda | grep -E "^rule |VIOLATION|HARNESS|exit=|Traceback|Error" | cut -c1-400
done
rm -rf $D
