#!/bin/sh
# adopt_out.sh <worktree-id> : for every /tmp/sa/out/<worktree-id>/<id>/{patch.diff,demo.py,meta.json} confirm (demo OK on
# the clean worktree, demo fails and pinned suite unchanged with the patch) and copy to /verif/seeded/<prop>-<id>/
W=/tmp/sa/$1
cd $W || exit 2
git checkout -q -- . 
for S in /tmp/sa/out/$1/*/; do
  id=$(basename $S)
  prop=$(python3 -c "import json;print(json.load(open('$S/meta.json'))['property'].lower())")
  PYTHONPATH=$W/src PYTHONDONTWRITEBYTECODE=1 timeout 300 /venv/bin/python $S/demo.py >/tmp/sa/out/$1/$id.clean.log 2>&1; AE=$?
  git apply $S/patch.diff || { echo "$id: patch does not apply"; continue; }
  PYTHONPATH=$W/src PYTHONDONTWRITEBYTECODE=1 timeout 300 /venv/bin/python $S/demo.py >/tmp/sa/out/$1/$id.mut.log 2>&1; BE=$?
  MUT=$(PYTHONPATH=$W/src PYTHONDONTWRITEBYTECODE=1 timeout 600 /venv/bin/python -m pytest -q -p no:cacheprovider --timeout=60 --continue-on-collection-errors 2>&1 | tail -1)
  git apply -R $S/patch.diff; git checkout -q -- .
  echo "$prop-$id: demo clean exit $AE, with change exit $BE ($(tail -1 /tmp/sa/out/$1/$id.mut.log | cut -c1-120)); suite with change: $MUT"
  case "$AE/$BE/$MUT" in
    0/1/*"9 failed, 193 passed, 16 xfailed, 194 errors"*)
      D=/verif/seeded/$prop-$id; mkdir -p $D; cp $S/patch.diff $S/demo.py $S/meta.json $D/; echo "  adopted -> $D";;
    *) echo "  NOT adopted";;
  esac
done
