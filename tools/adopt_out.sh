#!/bin/sh
# adopt_out.sh <worktree-id> <out-id> : for every /tmp/sa/out/<out-id>/<id>/{patch.diff,demo.py,meta.json} confirm (demo OK
# on the clean worktree, demo fails and pinned suite unchanged with the patch) and copy to /verif/seeded/<prop>-<id>/
W=/tmp/sa/$1; O=/tmp/sa/out/$2
cd "$W" || exit 2
git checkout -q -- .
for S in "$O"/*/; do
  id=$(basename "$S")
  prop=$(python3 -c "import json,re,sys;print(re.search(r'C\d\d',json.load(open(sys.argv[1]))['property']).group(0).lower())" "$S/meta.json")
  PYTHONPATH=$W/src PYTHONDONTWRITEBYTECODE=1 timeout 300 /venv/bin/python "$S/demo.py" >"$O/$id.clean.log" 2>&1; AE=$?
  git apply "$S/patch.diff" || { echo "$id: patch does not apply"; continue; }
  PYTHONPATH=$W/src PYTHONDONTWRITEBYTECODE=1 timeout 300 /venv/bin/python "$S/demo.py" >"$O/$id.mut.log" 2>&1; BE=$?
  MUT=$(PYTHONPATH=$W/src PYTHONDONTWRITEBYTECODE=1 timeout 600 /venv/bin/python -m pytest -q -p no:cacheprovider --timeout=60 --continue-on-collection-errors 2>&1 | tail -1)
  git apply -R "$S/patch.diff"; git checkout -q -- .
  echo "$prop-$id: demo clean exit $AE, with change exit $BE ($(tail -1 "$O/$id.mut.log" | cut -c1-120)); suite with change: $MUT"
  case "$AE/$BE/$MUT" in
    0/1/*"9 failed, 193 passed, 16 xfailed, 194 errors"*)
      D=/verif/seeded/$prop-$id; mkdir -p "$D"; cp "$S/patch.diff" "$S/demo.py" "$S/meta.json" "$D/"
      python3 - "$D/meta.json" "$prop" <<'PY'
import json,sys
p,prop=sys.argv[1],sys.argv[2].upper()
m=json.load(open(p))
if m.get('property')!=prop: m['property_text_as_given']=m['property']; m['property']=prop
json.dump(m,open(p,'w'),indent=1)
PY
      echo "  adopted -> $D";;
    *) echo "  NOT adopted";;
  esac
done
