#!/bin/sh
# adopt_seed.sh <worktree-id> <seed-name> : verify a sub-agent's change myself and copy it to /verif/seeded/<seed-name>/
W=/tmp/sa/$1; D=/verif/seeded/$2
[ -f $W/patch.diff ] || { echo "no patch"; exit 2; }
mkdir -p $D
cd $W || exit 2
git stash -q
A=$(PYTHONPATH=$W/src PYTHONDONTWRITEBYTECODE=1 timeout 300 /venv/bin/python $W/demo.py 2>&1 | tail -3 | tr '\n' ' '); AE=$?
BASE=$(PYTHONPATH=$W/src PYTHONDONTWRITEBYTECODE=1 timeout 400 /venv/bin/python -m pytest -q -p no:cacheprovider --timeout=60 --continue-on-collection-errors 2>&1 | tail -1)
git stash pop -q
B=$(PYTHONPATH=$W/src PYTHONDONTWRITEBYTECODE=1 timeout 300 /venv/bin/python $W/demo.py 2>&1 | tail -4 | tr '\n' ' ')
PYTHONPATH=$W/src PYTHONDONTWRITEBYTECODE=1 timeout 300 /venv/bin/python $W/demo.py >/dev/null 2>&1; BE=$?
MUT=$(PYTHONPATH=$W/src PYTHONDONTWRITEBYTECODE=1 timeout 400 /venv/bin/python -m pytest -q -p no:cacheprovider --timeout=60 --continue-on-collection-errors 2>&1 | tail -1)
git diff > $D/patch.diff
cp $W/demo.py $D/demo.py
echo "demo without change: $A"
echo "demo with change (exit $BE): $B"
echo "suite without: $BASE"
echo "suite with:    $MUT"
