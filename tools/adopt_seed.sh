#!/bin/sh
# adopt_seed.sh <worktree-id> <seed-name> : verify a sub-agent's change myself and copy it to /verif/seeded/<seed-name>/
# (never uses git stash: the stash is shared by all worktrees of a repository)
W=/tmp/sa/$1; D=/verif/seeded/$2
mkdir -p $D
cd $W || exit 2
git diff -- src > $D/patch.diff
[ -s $D/patch.diff ] || { echo "no change in worktree"; exit 2; }
cp $W/demo.py $D/demo.py
run_demo() { PYTHONPATH=$W/src PYTHONDONTWRITEBYTECODE=1 timeout 300 /venv/bin/python $W/demo.py 2>&1 | tail -4 | tr '\n' ' '; }
run_suite() { PYTHONPATH=$W/src PYTHONDONTWRITEBYTECODE=1 timeout 400 /venv/bin/python -m pytest -q -p no:cacheprovider --timeout=60 --continue-on-collection-errors 2>&1 | tail -1; }
git apply -R $D/patch.diff || exit 2
A=$(run_demo); PYTHONPATH=$W/src timeout 300 /venv/bin/python $W/demo.py >/dev/null 2>&1; AE=$?
BASE=$(run_suite)
git apply $D/patch.diff || exit 2
B=$(run_demo); PYTHONPATH=$W/src timeout 300 /venv/bin/python $W/demo.py >/dev/null 2>&1; BE=$?
MUT=$(run_suite)
echo "demo without change (exit $AE): $A"
echo "demo with change (exit $BE): $B"
echo "suite without: $BASE"
echo "suite with:    $MUT"
