"""SimFile: an append-only byte log with a visibility frontier, plus faulty read/write handles.

* a writer's dump() appends through a SupportsWrite handle that records every write() call;
* the scheduler advances the frontier to any byte <= the end of the log (page-cache flush, pipe
  delivery; if it never advances again, a writer crash with only a prefix durable);
* reader handles follow the BufferedIOBase contract over the *visible* prefix: read(n) returns n
  bytes unless the frontier is reached - EOF is the only reason for a short read.
"""
from __future__ import annotations

import errno
import io
from typing import List, Optional, Tuple


class SimFile:
    def __init__(self):
        self.data = bytearray()
        self.frontier = 0
        self.write_calls: List[Tuple[int, int]] = []   # (offset, length) of every write() call

    def writer(self, fail_at_call: Optional[int] = None, partial: int = 0) -> "WHandle":
        return WHandle(self, fail_at_call, partial)

    reader_kind = 0     # 0 plain object with read/tell/seek; 1 io.RawIOBase (unbuffered file, socket file); 2 BufferedReader

    def reader(self, pos: int = 0, fail_at_read: Optional[int] = None):
        if self.reader_kind == 1:
            return RawRHandle(self, pos, fail_at_read)
        if self.reader_kind == 2:
            return BufRHandle(RawRHandle(self, pos, fail_at_read))
        return RHandle(self, pos, fail_at_read)

    def flush_all(self) -> None:
        self.frontier = len(self.data)


class WHandle:
    """SupportsWrite[bytes].  The k-th write() call (0-based) may fail with ENOSPC after having
    stored `partial` bytes of its argument (a short, torn write)."""

    def __init__(self, f: SimFile, fail_at_call: Optional[int], partial: int):
        self.f = f
        self.fail_at_call = fail_at_call
        self.partial = partial
        self.calls = 0

    def write(self, b) -> int:
        b = bytes(b)
        k = self.calls
        self.calls += 1
        if self.fail_at_call is not None and k == self.fail_at_call:
            keep = b[: min(self.partial, len(b))]
            if keep:
                self.f.write_calls.append((len(self.f.data), len(keep)))
                self.f.data += keep
            raise OSError(errno.ENOSPC, "No space left on device (injected)")
        self.f.write_calls.append((len(self.f.data), len(b)))
        self.f.data += b
        return len(b)


class RHandle:
    """SupportsRead[bytes] with tell()/seek().  Sees only bytes below the frontier."""

    def __init__(self, f: SimFile, pos: int, fail_at_read: Optional[int]):
        self.f = f
        self.pos = pos
        self.fail_at_read = fail_at_read
        self.reads = 0
        self.hit_eof = False

    def read(self, n: int = -1) -> bytes:
        k = self.reads
        self.reads += 1
        if self.fail_at_read is not None and k == self.fail_at_read:
            raise OSError(errno.EIO, "Input/output error (injected)")
        limit = self.f.frontier
        if n is None or n < 0:
            end = limit
        else:
            end = min(self.pos + n, limit)
            if self.pos + n > limit:
                self.hit_eof = True
        if end < self.pos:
            end = self.pos
        out = bytes(self.f.data[self.pos:end])
        self.pos = end
        return out

    def tell(self) -> int:
        return self.pos

    def seek(self, pos: int, whence: int = 0) -> int:
        assert whence == 0
        self.pos = pos
        return pos


class RawRHandle(io.RawIOBase):
    """The same visible prefix behind the io.RawIOBase interface (an unbuffered file object).  A read is only
    ever short at the frontier: raw streams MAY return less, but nothing here tests a caller's patience."""

    def __init__(self, f: SimFile, pos: int, fail_at_read: Optional[int]):
        super().__init__()
        self.f = f
        self.pos = pos
        self.fail_at_read = fail_at_read
        self.reads = 0

    def readable(self) -> bool:
        return True

    def seekable(self) -> bool:
        return True

    def readinto(self, b) -> int:
        k = self.reads
        self.reads += 1
        if self.fail_at_read is not None and k == self.fail_at_read:
            raise OSError(errno.EIO, "Input/output error (injected)")
        end = max(self.pos, min(self.pos + len(b), self.f.frontier))
        out = bytes(self.f.data[self.pos:end])
        b[:len(out)] = out
        self.pos = end
        return len(out)

    def seek(self, pos: int, whence: int = 0) -> int:
        if whence == 0:
            self.pos = pos
        elif whence == 1:
            self.pos += pos
        else:
            self.pos = self.f.frontier + pos
        return self.pos

    def tell(self) -> int:
        return self.pos


class BufRHandle(io.BufferedReader):
    """io.BufferedReader over the raw handle (what open(path, 'rb') gives): reads ahead, tell() accounts for it."""

    def __init__(self, raw: RawRHandle):
        super().__init__(raw, buffer_size=64)
        self._raw_handle = raw

    @property
    def reads(self) -> int:
        return self._raw_handle.reads
