"""Independent, spec-level protobuf wire reader/writer (no code from the tree under test).

Used by oracles to look at encodings ("which field numbers are present", "where does frame k
end") and by fault injectors to craft inputs betterproto itself would never emit.
"""
from __future__ import annotations

import struct
from typing import List, NamedTuple, Optional, Tuple

VARINT, I64, LEN, SGROUP, EGROUP, I32 = 0, 1, 2, 3, 4, 5


class WireError(Exception):
    pass


def enc_varint(n: int) -> bytes:
    if n < 0:
        n += 1 << 64
    out = bytearray()
    while True:
        b = n & 0x7F
        n >>= 7
        if n:
            out.append(b | 0x80)
        else:
            out.append(b)
            return bytes(out)


def dec_varint(buf: bytes, pos: int) -> Tuple[int, int]:
    """Strict: at most 10 bytes, must terminate inside buf."""
    result = 0
    shift = 0
    start = pos
    while True:
        if pos >= len(buf):
            raise WireError("truncated varint")
        if pos - start >= 10:
            raise WireError("varint longer than 10 bytes")
        b = buf[pos]
        pos += 1
        result |= (b & 0x7F) << shift
        if not b & 0x80:
            if result >> 64:
                # a tenth byte above 0x01: decoders differ (wrap, reject); never one of the enforced kinds
                raise WireError("varint overflows 64 bits")
            return result, pos
        shift += 7


def tag(num: int, wt: int) -> bytes:
    return enc_varint((num << 3) | wt)


def f_varint(num: int, v: int) -> bytes:
    return tag(num, VARINT) + enc_varint(v)


def f_len(num: int, payload: bytes) -> bytes:
    return tag(num, LEN) + enc_varint(len(payload)) + payload


def f_i32(num: int, raw4: bytes) -> bytes:
    assert len(raw4) == 4
    return tag(num, I32) + raw4


def f_i64(num: int, raw8: bytes) -> bytes:
    assert len(raw8) == 8
    return tag(num, I64) + raw8


def f_group(num: int, inner: bytes) -> bytes:
    return tag(num, SGROUP) + inner + tag(num, EGROUP)


def zigzag(v: int) -> int:
    return (v << 1) ^ (v >> 63)


class Field(NamedTuple):
    num: int
    wt: int
    start: int        # offset of first tag byte
    tag_end: int      # offset after the tag varint
    len_end: int      # offset after the length varint (== tag_end for non-LEN)
    end: int          # offset after the last byte of the field
    value: object     # int for VARINT, bytes for I32/I64/LEN, bytes (inner) for group

    @property
    def raw_span(self) -> Tuple[int, int]:
        return (self.start, self.end)


def parse_fields(buf: bytes, start: int = 0, end: Optional[int] = None, _until_group: Optional[int] = None) -> List[Field]:
    """Parse buf[start:end] as a sequence of fields.  Raises WireError on anything malformed:
    truncation, wire types 6/7, field number 0, unmatched groups."""
    if end is None:
        end = len(buf)
    view = buf[:end]
    pos = start
    out: List[Field] = []
    while pos < end:
        f0 = pos
        key, pos = dec_varint(view, pos)
        num, wt = key >> 3, key & 7
        if num == 0:
            raise WireError("field number 0")
        tag_end = pos
        if wt == VARINT:
            v, pos = dec_varint(view, pos)
            out.append(Field(num, wt, f0, tag_end, tag_end, pos, v))
        elif wt == I64:
            if pos + 8 > end:
                raise WireError("truncated fixed64")
            out.append(Field(num, wt, f0, tag_end, tag_end, pos + 8, view[pos:pos + 8]))
            pos += 8
        elif wt == I32:
            if pos + 4 > end:
                raise WireError("truncated fixed32")
            out.append(Field(num, wt, f0, tag_end, tag_end, pos + 4, view[pos:pos + 4]))
            pos += 4
        elif wt == LEN:
            n, pos = dec_varint(view, pos)
            if pos + n > end:
                raise WireError("length past the end")
            out.append(Field(num, wt, f0, tag_end, pos, pos + n, view[pos:pos + n]))
            pos += n
        elif wt == SGROUP:
            inner_start = pos
            depth_fields, pos2 = _parse_group(view, pos, end, num)
            out.append(Field(num, wt, f0, tag_end, tag_end, pos2, view[inner_start:pos2]))
            pos = pos2
        elif wt == EGROUP:
            raise WireError("unmatched end-group")
        else:
            raise WireError(f"invalid wire type {wt}")
    return out


def _parse_group(view: bytes, pos: int, end: int, num: int):
    """Skip to the matching EGROUP of group `num`; returns (None, position after the EGROUP tag)."""
    while True:
        if pos >= end:
            raise WireError("unterminated group")
        key, p2 = dec_varint(view, pos)
        n2, wt = key >> 3, key & 7
        if n2 == 0:
            raise WireError("field number 0")
        if wt == EGROUP:
            if n2 != num:
                raise WireError("mismatched end-group")
            return None, p2
        if wt == VARINT:
            _, p2 = dec_varint(view, p2)
        elif wt == I64:
            p2 += 8
        elif wt == I32:
            p2 += 4
        elif wt == LEN:
            n, p2 = dec_varint(view, p2)
            p2 += n
        elif wt == SGROUP:
            _, p2 = _parse_group(view, p2, end, n2)
        else:
            raise WireError(f"invalid wire type {wt}")
        if p2 > end:
            raise WireError("truncated inside group")
        pos = p2


def is_valid(buf: bytes) -> bool:
    try:
        parse_fields(buf)
        return True
    except WireError:
        return False


class Frame(NamedTuple):
    start: int
    payload_start: int
    end: int


def frames(buf: bytes) -> List[Frame]:
    """Split a stream of varint-length-prefixed frames.  Raises WireError if the stream does not
    end exactly at a frame boundary."""
    out = []
    pos = 0
    while pos < len(buf):
        n, p = dec_varint(buf, pos)
        if p + n > len(buf):
            raise WireError("frame past the end")
        out.append(Frame(pos, p, p + n))
        pos = p + n
    return out


def field_numbers(buf: bytes) -> List[int]:
    return [f.num for f in parse_fields(buf)]


def pack_f32(x: float) -> bytes:
    return struct.pack("<f", x)


def pack_f64(x: float) -> bytes:
    return struct.pack("<d", x)
