"""Seeded service generator for grpcsim: the `programs` dimension of C11's quantifier
("1..n methods, every combination of client/server streaming, method names needing re-casing,
cross-package and google.protobuf message types").

Plain generation, reported as such - the simulation starts once the generated stub talks to the
generated base.  The vocabulary is fixed and was vetted on the pinned tree; two methods of one
service never share their re-cased name (a documented limitation of the generator's naming, not
part of the statement).
"""
from __future__ import annotations

import os
import random
from typing import Dict, List, Tuple

METHOD_NAMES = ["Get", "getThing", "GetHTTPResponse", "XMLHttpRequest", "do2Things", "Process_V2", "list",
                "Import", "Async", "Yield", "Class", "id", "type", "A", "a_b_c", "HTTP", "iOS", "SHOUT_CASE",
                "mixedCase9", "Ping", "Echo", "Lambda", "global", "DeleteAll", "stream", "Watch", "from_json",
                "ToDict", "parse", "__init", "RPC2", "send_", "Raise", "print"]
SERVICE_NAMES = ["Svc", "My_Service", "HTTPGateway", "api", "Test", "StubBase", "X", "dataStore"]
PACKAGES = [["zeta"], ["org", "example"], ["a", "b", "c"], ["snake_pkg", "v2"], ["v1"], ["deep", "er", "est", "pkg"]]
WKT = [("google/protobuf/empty.proto", "google.protobuf.Empty"),
       ("google/protobuf/wrappers.proto", "google.protobuf.StringValue"),
       ("google/protobuf/wrappers.proto", "google.protobuf.Int64Value"),
       ("google/protobuf/wrappers.proto", "google.protobuf.BoolValue"),
       ("google/protobuf/timestamp.proto", "google.protobuf.Timestamp"),
       ("google/protobuf/duration.proto", "google.protobuf.Duration")]
SCALARS = ["int32", "sint64", "uint32", "bool", "string", "bytes", "double", "fixed32", "sfixed64"]


def _norm(name: str) -> str:
    return name.replace("_", "").lower()


def make_case(seed: int) -> Dict[str, str]:
    """Returns {relative path: proto text} for one generated case (1-2 files, 1-2 services)."""
    rng = random.Random(seed)
    pkg = rng.choice(PACKAGES)
    pkg_name = ".".join(pkg)
    files: Dict[str, str] = {}
    # an optional sibling package with a message type the service refers to
    sib = None
    same_named = False
    if rng.randrange(2):
        kind = rng.randrange(4)
        if kind == 0:
            sib_pkg = pkg[:-1] + ["sib"]
        elif kind == 1:
            sib_pkg = ["other", "place"]
        else:
            # a COUSIN package: same depth, one component replaced by another that starts with the same
            # letter(s) (shop.orders.v1 / shop.offers.v1) - the relative import has to climb to the right ancestor
            i = rng.randrange(len(pkg))
            c = pkg[i]
            sib_pkg = pkg[:i] + [c[:1 + rng.randrange(2)] + "q" + c[:0:-1]] + pkg[i + 1:]
            same_named = bool(rng.randrange(2))
        sib = ".".join(sib_pkg)
        files["sib.proto"] = (f'syntax = "proto3";\npackage {sib};\n\n'
                              f'message Shared {{\n  string label = 1;\n  repeated sint32 nums = 2;\n'
                              f'  message Part {{ bool on = 1; bytes raw = 2; }}\n  Part part = 3;\n}}\n')
    imports = set()
    msgs = []
    n_msgs = 1 + rng.randrange(3)
    for i in range(n_msgs):
        fields = []
        for j in range(1 + rng.randrange(4)):
            t = rng.choice(SCALARS)
            rep = "repeated " if rng.randrange(5) == 0 else ""
            fields.append(f"  {rep}{t} f{j} = {j + 1};")
        if i == 0:
            fields.append("  message Inner { string s = 1; int32 k = 2; }\n  Inner inner = 15;")
        msgs.append((f"Msg{i}", "\n".join(fields)))
    if same_named:
        # the service's own package has a message of the same name as the cousin's, with another layout
        msgs.append(("Shared", "  fixed32 own = 1;\n  string label = 2;"))
    types: List[str] = [m[0] for m in msgs] + ["Msg0.Inner"]
    if sib:
        imports.add("sib.proto")
        types += [f"{sib}.Shared", f"{sib}.Shared.Part"]
    for imp, t in rng.sample(WKT, 1 + rng.randrange(3)):
        imports.add(imp)
        types.append(t)
    services = []
    snames = rng.sample(SERVICE_NAMES, 1 + rng.randrange(2))
    for sn in snames:
        chosen: List[str] = []
        seen = set()
        for name in rng.sample(METHOD_NAMES, len(METHOD_NAMES)):
            if _norm(name).strip("_") in seen:
                continue
            seen.add(_norm(name).strip("_"))
            chosen.append(name)
            if len(chosen) >= 1 + rng.randrange(5):
                break
        lines = []
        for mn in chosen:
            cs = "stream " if rng.randrange(2) else ""
            ss = "stream " if rng.randrange(2) else ""
            dep = " { option deprecated = true; }" if rng.randrange(6) == 0 else ";"
            lines.append(f"  rpc {mn} ({cs}{rng.choice(types)}) returns ({ss}{rng.choice(types)}){dep}")
        services.append((sn, "\n".join(lines)))
    text = ['syntax = "proto3";', f"package {pkg_name};", ""]
    for imp in sorted(imports):
        text.append(f'import "{imp}";')
    text.append("")
    for name, body in msgs:
        text.append(f"message {name} {{\n{body}\n}}\n")
    for sn, body in services:
        text.append(f"service {sn} {{\n{body}\n}}\n")
    files["main.proto"] = "\n".join(text)
    return files


def write_case(root: str, seed: int) -> None:
    os.makedirs(root, exist_ok=True)
    for rel, text in make_case(seed).items():
        p = os.path.join(root, rel)
        os.makedirs(os.path.dirname(p), exist_ok=True)
        with open(p, "w") as f:
            f.write(text)
