"""Reference peer: google.protobuf (upb) message classes built *from the betterproto dataclasses*
through a FileDescriptorProto, so both sides provably describe the same schema.  Real code:
google.protobuf runtime incl. google.protobuf.proto.{serialize,parse}_length_prefixed.
"""
from __future__ import annotations

import dataclasses
from datetime import datetime, timedelta
from typing import Dict

from google.protobuf import descriptor_pb2, descriptor_pool, message_factory
from google.protobuf import duration_pb2, timestamp_pb2, wrappers_pb2  # noqa: F401  (register WKTs)

from . import repo  # noqa: F401
import betterproto
from .valgen import class_info

FDP = descriptor_pb2.FieldDescriptorProto
_T = {
    "double": FDP.TYPE_DOUBLE, "float": FDP.TYPE_FLOAT, "int32": FDP.TYPE_INT32, "int64": FDP.TYPE_INT64,
    "uint32": FDP.TYPE_UINT32, "uint64": FDP.TYPE_UINT64, "sint32": FDP.TYPE_SINT32, "sint64": FDP.TYPE_SINT64,
    "fixed32": FDP.TYPE_FIXED32, "fixed64": FDP.TYPE_FIXED64, "sfixed32": FDP.TYPE_SFIXED32,
    "sfixed64": FDP.TYPE_SFIXED64, "bool": FDP.TYPE_BOOL, "string": FDP.TYPE_STRING, "bytes": FDP.TYPE_BYTES,
    "enum": FDP.TYPE_ENUM, "message": FDP.TYPE_MESSAGE,
}
_WRAP = {
    "bool": "BoolValue", "bytes": "BytesValue", "double": "DoubleValue", "float": "FloatValue",
    "int32": "Int32Value", "int64": "Int64Value", "string": "StringValue", "uint32": "UInt32Value",
    "uint64": "UInt64Value",
}

PKG = "verifref"


class RefSchema:
    def __init__(self, classes, file_name: str = "verifref.proto"):
        self.pool = descriptor_pool.DescriptorPool()
        for m in (timestamp_pb2, duration_pb2, wrappers_pb2):
            fdp = descriptor_pb2.FileDescriptorProto()
            m.DESCRIPTOR.CopyToProto(fdp)
            self.pool.Add(fdp)
        self.fdp = descriptor_pb2.FileDescriptorProto(name=file_name, package=PKG, syntax="proto3")
        self.fdp.dependency.extend(["google/protobuf/timestamp.proto", "google/protobuf/duration.proto",
                                    "google/protobuf/wrappers.proto"])
        self._msgs: Dict[type, str] = {}
        self._enums: Dict[type, str] = {}
        self._todo = list(classes)
        while self._todo:
            c = self._todo.pop(0)
            if c not in self._msgs:
                self._add_message(c)
        self.pool.Add(self.fdp)
        self._cls_cache: Dict[type, type] = {}

    def _enum_name(self, e) -> str:
        if e not in self._enums:
            name = e.__name__
            self._enums[e] = name
            ed = self.fdp.enum_type.add(name=name)
            for member in e:
                ed.value.add(name=f"{name}_{member.name}", number=int(member))
            if not any(int(m) == 0 for m in e):
                raise ValueError("proto3 enum needs a zero value")
        return f".{PKG}.{self._enums[e]}"

    def _msg_name(self, c) -> str:
        if c not in self._msgs and c not in self._todo:
            self._todo.append(c)
        return f".{PKG}.{c.__name__}"

    def _add_message(self, c) -> None:
        self._msgs[c] = c.__name__
        md = self.fdp.message_type.add(name=c.__name__)
        ci = class_info(c)
        oneofs: Dict[str, int] = {}
        for g in ci.groups:
            oneofs[g] = len(md.oneof_decl)
            md.oneof_decl.add(name=g)
        synth = []
        for fi in ci.fields:
            fd = md.field.add(name=fi.name, number=fi.number)
            fd.label = FDP.LABEL_REPEATED if (fi.repeated or fi.is_map) else FDP.LABEL_OPTIONAL
            if fi.is_map:
                kt, vt = fi.map_types
                ename = "".join(p.capitalize() for p in fi.name.split("_")) + "Entry"
                nd = md.nested_type.add(name=ename)
                nd.options.map_entry = True
                kf = nd.field.add(name="key", number=1, label=FDP.LABEL_OPTIONAL, type=_T[kt])
                vf = nd.field.add(name="value", number=2, label=FDP.LABEL_OPTIONAL, type=_T[vt])
                if vt == "message":
                    vf.type_name = self._msg_name(fi.map_value_cls)
                elif vt == "enum":
                    vf.type_name = self._enum_name(fi.map_value_cls)
                del kf
                fd.type = FDP.TYPE_MESSAGE
                fd.type_name = f".{PKG}.{c.__name__}.{ename}"
                continue
            fd.type = _T[fi.proto_type]
            if fi.proto_type == "message":
                if fi.wraps:
                    fd.type_name = f".google.protobuf.{_WRAP[fi.wraps]}"
                elif fi.py_cls is datetime:
                    fd.type_name = ".google.protobuf.Timestamp"
                elif fi.py_cls is timedelta:
                    fd.type_name = ".google.protobuf.Duration"
                else:
                    fd.type_name = self._msg_name(fi.py_cls)
            elif fi.proto_type == "enum":
                fd.type_name = self._enum_name(fi.py_cls)
            if fi.group:
                fd.oneof_index = oneofs[fi.group]
            elif fi.optional:
                synth.append(fd)
        for fd in synth:   # proto3 optional: synthetic oneofs come after the real ones
            fd.proto3_optional = True
            fd.oneof_index = len(md.oneof_decl)
            md.oneof_decl.add(name=f"_{fd.name}")

    def pb_class(self, c):
        got = self._cls_cache.get(c)
        if got is None:
            desc = self.pool.FindMessageTypeByName(f"{PKG}.{c.__name__}")
            got = message_factory.GetMessageClass(desc)
            self._cls_cache[c] = got
        return got


def ref_accepts(pb_cls, data: bytes) -> bool:
    try:
        pb_cls.FromString(data)
        return True
    except Exception:  # noqa: BLE001  (google.protobuf.message.DecodeError)
        return False
