"""Code generation for grpcsim: compile the service corpus with the *working tree's* plugin into a
scratch directory (mkdtemp, removed afterwards), and describe every service independently of the
plugin, from the FileDescriptorSet protoc writes.

ruff is not installed; the plugin shells out to it for import sorting and formatting only, so an
identity `ruff` stand-in is put on PATH for the plugin subprocess (declared as a stub).
"""
from __future__ import annotations

import concurrent.futures as cf
import dataclasses
import importlib
import json
import os
import shutil
import subprocess
import sys
import tempfile
from typing import Any, Dict, List, Optional, Tuple

from . import repo  # noqa: F401

VERIF_DIR = os.path.dirname(os.path.dirname(os.path.abspath(__file__)))
REPO_DIR = repo.REPO_DIR

# The frozen corpus: (case name, proto root).  Frozen from what generates and imports on the pinned
# tree; a case that stops generating or importing after a change is reported, not dropped.
def corpus() -> List[Tuple[str, str]]:
    own = os.path.join(VERIF_DIR, "protos")
    inputs = os.path.join(REPO_DIR, "tests", "inputs")
    out = [("cardinal", os.path.join(own, "cardinal")), ("xpkg", os.path.join(own, "xpkg")),
           ("shared", os.path.join(own, "shared")), ("nopkg", os.path.join(own, "nopkg"))]
    for name in ("service", "service_separate_packages", "service_uppercase", "example_service",
                 "googletypes_request", "googletypes_response", "googletypes_response_embedded",
                 "googletypes_service_returns_empty", "googletypes_service_returns_googletype",
                 "import_service_input_message"):
        out.append(("r_" + name, os.path.join(inputs, name)))
    return out


def _grpc_tools_include() -> str:
    import grpc_tools
    return os.path.join(os.path.dirname(grpc_tools.__file__), "_proto")


def _write_shims(bin_dir: str) -> None:
    os.makedirs(bin_dir, exist_ok=True)
    ruff = os.path.join(bin_dir, "ruff")
    with open(ruff, "w") as f:
        f.write("#!/bin/sh\n# identity stand-in for ruff (formatting / import sorting only)\nexec cat\n")
    os.chmod(ruff, 0o755)
    plug = os.path.join(bin_dir, "protoc-gen-python_betterproto")
    with open(plug, "w") as f:
        f.write("#!/bin/sh\n"
                f"PYTHONPATH='{os.path.join(REPO_DIR, 'src')}' exec '{sys.executable}' -c "
                "'from betterproto.plugin.main import main; main()'\n")
    os.chmod(plug, 0o755)


class EnvironmentalFailure(RuntimeError):
    pass


_ENV_MARKERS = ("No space left on device", "MemoryError", "Cannot allocate memory", "No module named 'grpc_tools'",
                "Too many open files", "Resource temporarily unavailable")


def _generate_one(scratch: str, case: str, root: str) -> Tuple[str, int, str]:
    out_dir = os.path.join(scratch, "gen", case)
    os.makedirs(out_dir, exist_ok=True)
    protos = []
    for dp, _, fns in os.walk(root):
        for fn in sorted(fns):
            if fn.endswith(".proto"):
                protos.append(os.path.relpath(os.path.join(dp, fn), root))
    protos.sort()
    bin_dir = os.path.join(scratch, "bin")
    env = dict(os.environ)
    env["PATH"] = bin_dir + os.pathsep + env.get("PATH", "")
    env["PYTHONPATH"] = os.path.join(REPO_DIR, "src")
    env["PYTHONHASHSEED"] = "0"
    env.pop("VERIF_REEXEC", None)
    cmd = [sys.executable, "-m", "grpc_tools.protoc", "-I", root, "-I", _grpc_tools_include(),
           f"--plugin=protoc-gen-python_betterproto={os.path.join(bin_dir, 'protoc-gen-python_betterproto')}",
           f"--python_betterproto_out={out_dir}",
           f"--descriptor_set_out={os.path.join(scratch, 'gen', case + '.desc')}"] + protos
    try:
        p = subprocess.run(cmd, env=env, capture_output=True, text=True, timeout=300)
    except (subprocess.TimeoutExpired, OSError) as e:
        raise EnvironmentalFailure(f"{case}: protoc could not be run to completion: {type(e).__name__}: {e}")
    out = (p.stdout + p.stderr)[-3000:]
    if p.returncode != 0 and (p.returncode < 0 or "python_betterproto" not in out
                              or any(m in out for m in _ENV_MARKERS)):
        # killed by a signal, protoc itself missing / unable to start, disk full, out of memory:
        # the sandbox failed, not the plugin - a harness outcome (exit 2), never C11.G1
        raise EnvironmentalFailure(f"{case}: generation failed for a reason outside the plugin (rc={p.returncode}): {out[-600:]}")
    return case, p.returncode, out


def generate_corpus(cases: Optional[List[Tuple[str, str]]] = None,
                    generated: Optional[List[Tuple[str, int]]] = None) -> Tuple[str, Dict[str, str]]:
    """Returns (scratch dir, {case: error text for cases that failed to generate}).
    `generated` = [(case name, seed)]: services written by sim/svcgen.py into the scratch dir."""
    scratch = tempfile.mkdtemp(prefix="bp-grpcsim-")
    _write_shims(os.path.join(scratch, "bin"))
    os.makedirs(os.path.join(scratch, "gen"), exist_ok=True)
    cases = list(cases if cases is not None else corpus())
    if generated:
        from . import svcgen
        for name, seed in generated:
            root = os.path.join(scratch, "protos", name)
            svcgen.write_case(root, seed)
            cases.append((name, root))
    failed: Dict[str, str] = {}
    with cf.ThreadPoolExecutor(max_workers=8) as ex:
        for case, rc, out in ex.map(lambda c: _generate_one(scratch, *c), cases):
            if rc != 0:
                failed[case] = out
    return scratch, failed


# ---------------------------------------------------------------------------------------------
# service descriptions, from the descriptor set (independent of the plugin)
# ---------------------------------------------------------------------------------------------

@dataclasses.dataclass
class MethodDesc:
    name: str
    route: str
    client_streaming: bool
    server_streaming: bool
    input_type: str      # fully qualified, leading dot
    output_type: str
    index: int


@dataclasses.dataclass
class ServiceDesc:
    case: str
    package: str
    name: str
    methods: List[MethodDesc]
    file: str


def _pascal(s: str) -> str:
    # what protoc-style PascalCase does to an already cased identifier: keep it unless it has underscores
    return "".join(p[:1].upper() + p[1:] for p in s.split("_")) if "_" in s else s[:1].upper() + s[1:]


class Case:
    """One generated corpus case: descriptors + imported modules + class resolution."""

    def __init__(self, scratch: str, case: str):
        from google.protobuf import descriptor_pb2
        self.case = case
        self.scratch = scratch
        fds = descriptor_pb2.FileDescriptorSet()
        with open(os.path.join(scratch, "gen", case + ".desc"), "rb") as f:
            fds.ParseFromString(f.read())
        self.fds = fds
        self.msg_home: Dict[str, Tuple[str, List[str]]] = {}   # ".pkg.Outer.Inner" -> (pkg, ["Outer","Inner"])
        self.services: List[ServiceDesc] = []
        for fd in fds.file:
            def walk(prefix, path, msgs, pkg=fd.package):
                for m in msgs:
                    full = f"{prefix}.{m.name}"
                    self.msg_home[full] = (pkg, path + [m.name])
                    walk(full, path + [m.name], m.nested_type, pkg)
            walk("." + fd.package if fd.package else "", [], fd.message_type)
            for s in fd.service:
                methods = []
                for i, m in enumerate(s.method):
                    route = f"/{fd.package + '.' if fd.package else ''}{s.name}/{m.name}"
                    methods.append(MethodDesc(m.name, route, m.client_streaming, m.server_streaming,
                                              m.input_type, m.output_type, i))
                self.services.append(ServiceDesc(case, fd.package, s.name, methods, fd.name))
        self._modules: Dict[str, Any] = {}

    def module(self, package: str):
        name = self.case + ("." + package if package else "")
        if name not in self._modules:
            self._modules[name] = importlib.import_module(name)
        return self._modules[name]

    def message_class(self, full: str):
        if full.startswith(".google.protobuf."):
            import betterproto.lib.google.protobuf as wkt
            return getattr(wkt, full.rsplit(".", 1)[1])
        pkg, path = self.msg_home[full]
        mod = self.module(pkg)
        for cand in ("".join(path), "".join(_pascal(p) for p in path)):
            c = getattr(mod, cand, None)
            if c is not None:
                return c
        # last resort: case-insensitive match (e.g. DoTHINGRequest -> DoThingRequest)
        want = "".join(path).replace("_", "").lower()
        for k, v in vars(mod).items():
            if k.replace("_", "").lower() == want and isinstance(v, type):
                return v
        raise LookupError(f"{self.case}: no class for {full} in module {mod.__name__}")

    def stub_and_base(self, sd: ServiceDesc):
        import betterproto
        from betterproto.grpc.grpclib_server import ServiceBase
        mod = self.module(sd.package)
        stubs = [v for k, v in vars(mod).items() if isinstance(v, type) and issubclass(v, betterproto.ServiceStub)
                 and v is not betterproto.ServiceStub and v.__module__ == mod.__name__]
        bases = [v for k, v in vars(mod).items() if isinstance(v, type) and issubclass(v, ServiceBase)
                 and v is not ServiceBase and v.__module__ == mod.__name__]
        want = sd.name.replace("_", "").lower()
        stub = next((c for c in stubs if c.__name__[:-4].replace("_", "").lower() == want), None)
        base = next((c for c in bases if c.__name__[:-4].replace("_", "").lower() == want), None)
        if stub is None or base is None:
            raise LookupError(f"{self.case}: no Stub/Base for service {sd.name} in {mod.__name__}")
        return stub, base


def public_methods_in_order(cls) -> List[str]:
    """Names of the public functions defined in the class body, in definition order."""
    return [k for k, v in vars(cls).items() if callable(v) and not k.startswith("_")]


def _norm_name(name: str) -> str:
    return name.replace("_", "").lower()


def methods_for(cls, sd: "ServiceDesc") -> List[str]:
    """The Python method of `cls` (generated Stub or Base) for every rpc of the service, in rpc order.  Matched by
    NAME up to case and underscores (whatever re-casing the plugin applies; `from` -> `from_`), so that helper
    methods a generated class may carry, or another emission order, do not matter; definition order only breaks
    ties.  LookupError if an rpc has no method at all."""
    public = public_methods_in_order(cls)
    by_norm: Dict[str, List[str]] = {}
    for n in public:
        by_norm.setdefault(_norm_name(n), []).append(n)
    out: List[Optional[str]] = []
    used = set()
    for m in sd.methods:
        cands = [n for n in by_norm.get(_norm_name(m.name), []) if n not in used]
        if cands:
            out.append(cands[0])
            used.add(cands[0])
        else:
            out.append(None)
    if any(n is None for n in out):
        rest = [n for n in public if n not in used]
        missing = [i for i, n in enumerate(out) if n is None]
        if len(rest) < len(missing):
            raise LookupError(f"service {sd.name}: no method of {cls.__name__} for rpc(s) "
                              f"{[sd.methods[i].name for i in missing]} (public methods: {public})")
        for i, n in zip(missing, rest):      # names the harness cannot relate: fall back to definition order
            out[i] = n
    return out  # type: ignore[return-value]


def load_cases(scratch: str, names: List[str]) -> Dict[str, Case]:
    gen_dir = os.path.join(scratch, "gen")
    if gen_dir not in sys.path:
        sys.path.insert(0, gen_dir)
    importlib.invalidate_caches()
    return {n: Case(scratch, n) for n in names}


def cleanup(scratch: Optional[str]) -> None:
    if scratch and os.path.isdir(scratch) and os.path.basename(scratch).startswith("bp-grpcsim-"):
        shutil.rmtree(scratch, ignore_errors=True)
