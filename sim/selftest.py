"""Sensitivity self-test: apply each patch under /verif/mutants/<property>/ (and /verif/seeded/*/patch.diff)
to a scratch copy of the tree under test and confirm that the property's *quick* check reports a
VIOLATION.  Scratch copies live under a fresh mkdtemp() outside /repo and /verif and are removed.
"""
from __future__ import annotations

import glob
import json
import os
import shutil
import subprocess
import sys
import tempfile
import time

VERIF_DIR = os.path.dirname(os.path.dirname(os.path.abspath(__file__)))
REPO_DIR = os.environ.get("VERIF_REPO", "/repo")


def _scratch_copy() -> str:
    d = tempfile.mkdtemp(prefix="bp-mutant-")
    # tracked files only, from the working tree (so that uncommitted edits under test are included)
    files = subprocess.run(["git", "-C", REPO_DIR, "ls-files", "src", "tests/inputs", "tests/util.py"],
                           capture_output=True, text=True, check=True).stdout.split("\n")
    for f in files:
        if not f:
            continue
        src = os.path.join(REPO_DIR, f)
        if not os.path.isfile(src):
            continue
        dst = os.path.join(d, f)
        os.makedirs(os.path.dirname(dst), exist_ok=True)
        shutil.copy2(src, dst)
    return d


def collect(prop_filter=None):
    out = []
    only_seeded = os.environ.get("VERIF_ONLY_SEEDED") == "1"
    for p in ([] if only_seeded else sorted(glob.glob(os.path.join(VERIF_DIR, "mutants", "*", "*.diff")))):
        prop = os.path.basename(os.path.dirname(p))
        if prop_filter and prop != prop_filter:
            continue
        out.append((prop, os.path.basename(p)[:-5], p))
    for meta in sorted(glob.glob(os.path.join(VERIF_DIR, "seeded", "*", "meta.json"))):
        with open(meta) as f:
            m = json.load(f)
        prop = m["property"]
        if prop_filter and prop != prop_filter:
            continue
        out.append((prop, "seeded/" + os.path.basename(os.path.dirname(meta)),
                    os.path.join(os.path.dirname(meta), "patch.diff")))
    return out


def run(prop_filter=None, runs=None, tier="quick") -> int:
    results = []
    claimed = set()
    with open(os.path.join(VERIF_DIR, "MANIFEST.json")) as f:
        for c in json.load(f)["checks"]:
            claimed.add(c["property_id"])
    for prop, name, patch in collect(prop_filter):
        if prop not in claimed:
            continue
        d = _scratch_copy()
        try:
            ap = subprocess.run(["git", "apply", "--whitespace=nowarn", patch], cwd=d, capture_output=True, text=True)
            if ap.returncode != 0:
                results.append(dict(property=prop, mutant=name, status="patch-does-not-apply",
                                    detail=ap.stderr[-300:]))
                print(f"{prop} {name}: PATCH DOES NOT APPLY {ap.stderr[-200:]}", flush=True)
                continue
            env = dict(os.environ)
            env["VERIF_REPO"] = d
            env["VERIF_SCRATCH_OUT"] = os.path.join(d, "_out")
            env.setdefault("VERIF_FAST_FAIL", "1")     # detected or not is settled by the first violation
            env.pop("VERIF_REEXEC", None)
            cmd = [os.path.join(VERIF_DIR, "check"), prop, "--tier", tier]
            if runs:
                cmd += ["--runs", str(runs)]
            t0 = time.time()
            p = subprocess.run(cmd, env=env, capture_output=True, text=True, timeout=3600)
            dt = time.time() - t0
            viol = [ln for ln in p.stdout.splitlines() if ln.startswith("VIOLATION")]
            rules = [ln for ln in p.stdout.splitlines() if ln.startswith("rule ")]
            status = "killed" if p.returncode == 1 and viol else ("survived" if p.returncode == 0 else "harness-error")
            results.append(dict(property=prop, mutant=name, status=status, wall_s=round(dt, 1),
                                rules=[r[:160] for r in rules[:4]]))
            print(f"{prop} {name}: {status.upper()} ({dt:.1f}s) {' | '.join(r[:110] for r in rules[:2])}", flush=True)
            if status == "harness-error":
                print(p.stdout[-1500:], p.stderr[-1500:])
        finally:
            shutil.rmtree(d, ignore_errors=True)
    # behaviour-preserving refactorings: the checks must stay SILENT on them
    benign_bad = 0
    for meta in sorted(glob.glob(os.path.join(VERIF_DIR, "benign", "*", "meta.json"))):
        with open(meta) as f:
            m = json.load(f)
        name = "benign/" + os.path.basename(os.path.dirname(meta))
        patch = os.path.join(os.path.dirname(meta), "patch.diff")
        for prop in m["properties"]:
            if (prop_filter and prop != prop_filter) or prop not in claimed or os.environ.get("VERIF_ONLY_SEEDED") == "1":
                continue
            d = _scratch_copy()
            try:
                ap = subprocess.run(["git", "apply", "--whitespace=nowarn", patch], cwd=d, capture_output=True, text=True)
                if ap.returncode != 0:
                    print(f"{prop} {name}: PATCH DOES NOT APPLY", flush=True)
                    continue
                env = dict(os.environ)
                env["VERIF_REPO"] = d
                env["VERIF_SCRATCH_OUT"] = os.path.join(d, "_out")
                env.pop("VERIF_REEXEC", None)
                t0 = time.time()
                p = subprocess.run([os.path.join(VERIF_DIR, "check"), prop, "--tier", tier], env=env,
                                   capture_output=True, text=True, timeout=3600)
                ok = p.returncode == 0
                benign_bad += 0 if ok else 1
                print(f"{prop} {name}: {'SILENT (as it must be)' if ok else 'FALSE ALARM'} ({time.time() - t0:.1f}s)", flush=True)
                if not ok:
                    print(p.stdout[-1500:])
                results.append(dict(property=prop, mutant=name, status="silent" if ok else "false-alarm"))
            finally:
                shutil.rmtree(d, ignore_errors=True)
    killed = sum(1 for r in results if r["status"] in ("killed", "silent"))
    print(f"selftest: {killed}/{len(results)} mutants killed")
    out = os.path.join(VERIF_DIR, "mutants", "last_selftest.json")
    rc = 0 if killed == len(results) else 1
    if prop_filter:
        # a run restricted to one property refreshes that property's entries and keeps the others
        try:
            with open(out) as f:
                old = json.load(f).get("results", [])
        except (OSError, ValueError):
            old = []
        results = [r for r in old if r.get("property") != prop_filter] + results
        killed = sum(1 for r in results if r["status"] in ("killed", "silent"))
    with open(out, "w") as f:
        json.dump(dict(killed=killed, tried=len(results), results=results), f, indent=1)
    return rc


if __name__ == "__main__":
    sys.exit(run(sys.argv[1] if len(sys.argv) > 1 else None))
