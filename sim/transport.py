"""SimNet / SimTransport: the simulated TCP connection under grpclib's H2Protocol, and the virtual
`time` module that grpclib sees.

Per direction one FIFO of byte segments, each delivered by a timer on the virtual clock.  The tape
draws, per write, a latency from a small set of dyadic rationals and a re-segmentation (split into
1-3 segments at arbitrary offsets, or coalesce with the previous undelivered write), as TCP may.
Order within a direction is never changed and nothing is dropped or duplicated (HTTP/2 runs on a
reliable byte stream); every delivery timer hands over the *head* of its direction's FIFO, so that
same-instant timers firing in any order cannot reorder bytes.  Connection loss is a separate fault.
"""
from __future__ import annotations

import asyncio
import collections
from typing import Deque, Dict, List, Optional

LATENCIES = [0.0, 1 / 1024, 1 / 128, 1 / 16, 1 / 1024, 0.0, 1 / 128, 1.0]   # index 7: stalled link


_EOF = b""          # queue sentinel (real segments are never empty): the writer of this direction closed


class SimNet:
    def __init__(self, loop, tape, stats, allow_stall: bool = False, resegment: bool = True):
        self.loop = loop
        self.tape = tape
        self.stats = stats
        self.allow_stall = allow_stall
        self.resegment = resegment
        self.queues: Dict[str, Deque[bytes]] = {"c2s": collections.deque(), "s2c": collections.deque()}
        self.last_at: Dict[str, float] = {"c2s": 0.0, "s2c": 0.0}
        self.peer: Dict[str, object] = {}
        self.lost = False
        self.quiet = False              # teardown: deliver at once, consume no decisions
        self.bytes: Dict[str, int] = {"c2s": 0, "s2c": 0}
        self.latency_sum = 0.0
        self.transports: Dict[str, "SimTransport"] = {}
        self._told: set = set()

    def transport(self, direction: str, peer_protocol) -> "SimTransport":
        self.peer[direction] = peer_protocol
        tr = SimTransport(self, direction)
        self.transports[direction] = tr
        return tr

    def closed_by(self, direction: str) -> None:
        """The end writing in `direction` closed its transport: as with TCP, its own protocol learns
        connection_lost(None) on the next loop iteration and the peer reads EOF after everything
        already in flight in that direction.  No decision is consumed."""
        if self.lost or self.quiet:
            return
        other = "s2c" if direction == "c2s" else "c2s"
        own = self.peer.get(other)
        if own is not None:
            self.loop.call_soon(self._lost, own, other)
        self.queues[direction].append(_EOF)
        when = max(self.loop.time(), self.last_at[direction])
        self.last_at[direction] = when
        self.loop.call_at(when, self._deliver, direction)
        self.stats["probe:transport-closed-by-an-endpoint"] += 1

    def _lost(self, proto, writes_in: str) -> None:
        if proto in self._told:
            return
        self._told.add(proto)
        tr = self.transports.get(writes_in)
        if tr is not None:
            tr._closing = True
        try:
            proto.connection_lost(None)
        except Exception:  # noqa: BLE001
            pass

    def send(self, direction: str, data: bytes) -> None:
        if self.lost or not data:
            return
        t = self.tape
        q = self.queues[direction]
        self.bytes[direction] += len(data)
        if self.quiet:
            q.append(data)
            self.loop.call_soon(self._deliver, direction)
            return
        if self.resegment and q and q[-1] is not _EOF and t.draw(4, "coalesce") == 3:
            q[-1] = q[-1] + data           # rides along with the previous, still undelivered write
            self.stats["probe:tcp-coalesced-writes"] += 1
            return
        lat = LATENCIES[t.draw(8 if self.allow_stall else 7, "latency")]
        if lat >= 1.0:
            self.stats["fault:stalled-link"] += 1
        self.latency_sum += lat
        parts: List[bytes] = [data]
        if self.resegment and len(data) > 1:
            k = t.draw(3, "segments")
            for _ in range(k):
                big = max(range(len(parts)), key=lambda i: len(parts[i]))
                p = parts[big]
                if len(p) < 2:
                    break
                cut = 1 + t.draw(len(p) - 1, "cut-at")
                parts[big:big + 1] = [p[:cut], p[cut:]]
            if k:
                self.stats["probe:tcp-resegmented-writes"] += 1
        when = max(self.loop.time() + lat, self.last_at[direction])
        for p in parts:
            q.append(p)
            self.last_at[direction] = when
            self.loop.call_at(when, self._deliver, direction)

    def _deliver(self, direction: str) -> None:
        q = self.queues[direction]
        if self.lost or not q:
            return
        seg = q.popleft()
        proto = self.peer[direction]
        if seg is _EOF:
            self._lost(proto, "s2c" if direction == "c2s" else "c2s")
            return
        try:
            closing = proto.connection.is_closing()
        except AttributeError:
            closing = False
        if not closing:
            proto.data_received(seg)

    def lose_connection(self, protocols) -> None:
        """Connection loss: both ends learn about it now; everything in flight is gone."""
        if self.lost:
            return
        self.lost = True
        for q in self.queues.values():
            q.clear()
        for p in protocols:
            if p in self._told:
                continue
            self._told.add(p)
            try:
                p.connection_lost(ConnectionResetError("connection lost (injected)"))
            except Exception:  # noqa: BLE001
                pass


class SimTransport(asyncio.Transport):
    def __init__(self, net: SimNet, direction: str):
        super().__init__()
        self.net = net
        self.direction = direction
        self._closing = False

    def write(self, data) -> None:
        if not self._closing:
            self.net.send(self.direction, bytes(data))

    def is_closing(self) -> bool:
        return self._closing or self.net.lost

    def close(self) -> None:
        if not self._closing:
            self._closing = True
            self.net.closed_by(self.direction)

    def abort(self) -> None:
        self.close()

    def get_extra_info(self, name, default=None):
        if name == "peername":
            return ("sim", 1 if self.direction == "c2s" else 2)
        return default

    def get_write_buffer_size(self) -> int:
        return 0

    def set_write_buffer_limits(self, high=None, low=None) -> None:
        pass

    def pause_reading(self) -> None:
        pass

    def resume_reading(self) -> None:
        pass

    def can_write_eof(self) -> bool:
        return False


class VirtualTime:
    """Stands in for the `time` module inside grpclib: monotonic() is the simulated clock."""

    def __init__(self, real_time_module):
        self._real = real_time_module
        self.loop = None

    def monotonic(self) -> float:
        loop = self.loop
        if loop is None:
            raise RuntimeError("virtual time read outside a simulation run")
        return loop.time()

    def time(self) -> float:
        return 1_700_000_000.0 + self.monotonic()

    def __getattr__(self, name):
        return getattr(self._real, name)


_vt: Optional[VirtualTime] = None


def install_virtual_time() -> VirtualTime:
    """Rebind the name `time` in the grpclib modules that read the clock."""
    global _vt
    if _vt is None:
        import time as real
        import grpclib.client
        import grpclib.metadata
        import grpclib.protocol
        import grpclib.server
        _vt = VirtualTime(real)
        for mod in (grpclib.metadata, grpclib.client, grpclib.server, grpclib.protocol):
            if getattr(mod, "time", None) is real:
                mod.time = _vt
    return _vt
