"""Import betterproto from the working tree under test ($VERIF_REPO, default /repo)."""
import os
import sys

REPO_DIR = os.environ.get("VERIF_REPO", "/repo")
_src = os.path.join(REPO_DIR, "src")
if sys.path[0] != _src:
    sys.path.insert(0, _src)

import betterproto  # noqa: E402

_got = os.path.realpath(os.path.dirname(os.path.dirname(betterproto.__file__)))
if _got != os.path.realpath(_src):
    raise RuntimeError(f"betterproto imported from {_got}, expected {_src}")
