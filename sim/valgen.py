"""Tape-driven, boundary-biased value generator for betterproto message classes.

The value DOMAIN is fixed statically to values on which the in-memory codec (parse(bytes(m)) == m)
is not in question - the claimed properties are about streams, schedules, faults and histories and
must not inherit alarms that belong to C01/C15/C20.  Excluded (documented codec limitations of the
pinned tree): negative enum numbers, negative and huge timedeltas, sub-microsecond times, string
map keys that are empty (an entry with default key and default value encodes to nothing), float
fields holding values not representable in binary32, NaN inside containers, -0.0 (drawn only for
C10, where sizes are compared with bytes and equality with the default is the point).
"""
from __future__ import annotations

import dataclasses
import sys
import typing
from datetime import datetime, timedelta, timezone
from typing import Any, Dict, List, Optional

from . import repo  # noqa: F401
import betterproto

I32 = [0, 1, -1, 127, 128, 300, -129, 2**31 - 1, -2**31, 65536, 42]
I64 = [0, 1, -1, 2**63 - 1, -2**63, 2**31, -2**31 - 1, 2**53 + 1, 1 << 35, 7]
U32 = [0, 1, 127, 128, 2**32 - 1, 2**31, 16384, 5]
U64 = [0, 1, 2**64 - 1, 2**63, 2**32, 2**56, 9]
F32 = [0.0, 1.5, -2.25, 3.4028234663852886e38, 1.401298464324817e-45, float("inf"), float("-inf"), 0.5, -1.0]
F64 = [0.0, 1.5, -2.25, 1.7976931348623157e308, 5e-324, float("inf"), float("-inf"), 0.1, 1e100]
STR = ["", "a", "héllo", "日本", "😀", "\x00", "line\nbreak", "x" * 40, "ſtrange ß", "z"]
BYT = [b"", b"\x00", b"\xff\xfe", b"abc", b"\x80" * 5, bytes(range(16)), b"\x08\x01", b"\n\x00"]

_INT = {
    betterproto.TYPE_INT32: I32, betterproto.TYPE_SINT32: I32, betterproto.TYPE_SFIXED32: I32,
    betterproto.TYPE_INT64: I64, betterproto.TYPE_SINT64: I64, betterproto.TYPE_SFIXED64: I64,
    betterproto.TYPE_UINT32: U32, betterproto.TYPE_FIXED32: U32,
    betterproto.TYPE_UINT64: U64, betterproto.TYPE_FIXED64: U64,
}


@dataclasses.dataclass
class FieldInfo:
    name: str
    number: int
    proto_type: str
    group: Optional[str]
    optional: bool
    wraps: Optional[str]
    repeated: bool
    is_map: bool
    map_types: Optional[typing.Tuple[str, str]]
    py_cls: Any            # message class / enum class / datetime / timedelta / None
    map_value_cls: Any


@dataclasses.dataclass
class ClassInfo:
    cls: type
    fields: List[FieldInfo]
    by_name: Dict[str, FieldInfo]
    by_number: Dict[int, FieldInfo]
    groups: Dict[str, List[FieldInfo]]


_info_cache: Dict[type, ClassInfo] = {}


def _unwrap(t):
    origin = typing.get_origin(t)
    if origin is typing.Union:
        args = [a for a in typing.get_args(t) if a is not type(None)]
        return args[0], "optional"
    if origin in (list, typing.List):
        return typing.get_args(t)[0], "list"
    if origin in (dict, typing.Dict):
        return typing.get_args(t), "dict"
    return t, ""


def class_info(cls) -> ClassInfo:
    ci = _info_cache.get(cls)
    if ci is not None:
        return ci
    hints = typing.get_type_hints(cls, vars(sys.modules[cls.__module__]))
    fields = []
    for f in dataclasses.fields(cls):
        meta = f.metadata["betterproto"]
        t, kind = _unwrap(hints[f.name])
        py_cls = None
        mv = None
        if kind == "dict":
            kt, vt = t
            mv = vt if isinstance(vt, type) and (issubclass(vt, betterproto.Message) or issubclass(vt, betterproto.Enum)) else None
        elif isinstance(t, type) and (issubclass(t, (betterproto.Message, betterproto.Enum)) or t in (datetime, timedelta)):
            py_cls = t
        fields.append(FieldInfo(f.name, meta.number, meta.proto_type, meta.group, bool(meta.optional),
                                meta.wraps, kind == "list", kind == "dict", meta.map_types, py_cls, mv))
    groups: Dict[str, List[FieldInfo]] = {}
    for fi in fields:
        if fi.group:
            groups.setdefault(fi.group, []).append(fi)
    ci = ClassInfo(cls, fields, {f.name: f for f in fields}, {f.number: f for f in fields}, groups)
    _info_cache[cls] = ci
    return ci


class Gen:
    def __init__(self, tape, *, unlisted_enums: bool = True, nan: bool = True, big: bool = False,
                 max_depth: int = 3, negzero: bool = False):
        self.tape = tape
        self.unlisted_enums = unlisted_enums
        self.nan = nan
        self.big = big
        self.max_depth = max_depth
        self.negzero = negzero      # -0.0: equal to the default yet not the default's bits (C10 only: sizes vs bytes)

    # -- scalars ------------------------------------------------------------------------------
    def scalar(self, proto_type: str, enum_cls=None, in_container: bool = False, nonempty_str: bool = False):
        t = self.tape
        if proto_type in _INT:
            return t.choice(_INT[proto_type], "int")
        if proto_type == betterproto.TYPE_BOOL:
            return bool(t.draw(2, "bool"))
        if proto_type in (betterproto.TYPE_FLOAT, betterproto.TYPE_DOUBLE) and self.negzero and t.draw(10, "negzero?") == 9:
            return -0.0
        if proto_type == betterproto.TYPE_FLOAT:
            if self.nan and not in_container and t.draw(12, "nan?") == 11:
                return float("nan")
            return t.choice(F32, "f32")
        if proto_type == betterproto.TYPE_DOUBLE:
            if self.nan and not in_container and t.draw(12, "nan?") == 11:
                return float("nan")
            return t.choice(F64, "f64")
        if proto_type == betterproto.TYPE_STRING:
            if self.big and t.draw(40, "bigstr?") == 39:
                return "B" * 20000
            if self.big and t.draw(14, "edge-len-str?") == 13:
                # payload lengths around the 1->2 and 2->3 byte varint boundaries
                return "e" * t.choice([125, 126, 127, 128, 129, 16382, 16383, 16384], "edge-len")
            s = t.choice(STR, "str")
            return s or ("k" if nonempty_str else s)
        if proto_type == betterproto.TYPE_BYTES:
            if self.big and t.draw(40, "bigbytes?") == 39:
                return b"\xab" * 20000
            if self.big and t.draw(14, "edge-len-bytes?") == 13:
                return b"\x5a" * t.choice([125, 126, 127, 128, 129, 16382, 16383, 16384], "edge-len")
            return t.choice(BYT, "bytes")
        if proto_type == betterproto.TYPE_ENUM:
            members = list(enum_cls)
            k = t.draw(len(members) + (2 if self.unlisted_enums else 0), "enum")
            if k < len(members):
                return members[k]
            return enum_cls.try_value([3, 77][k - len(members)])
        raise NotImplementedError(proto_type)

    def wrapped(self, wraps: str):
        return self.scalar(wraps)

    def dt(self) -> datetime:
        t = self.tape
        base = datetime(1970, 1, 1, tzinfo=timezone.utc)
        us = t.choice([0, 1, 999999, 1000000, 1700000000123456, -1, -86400000000, 253402300799999999,
                       -62135596800000000 + 86400000000, 123456789], "dt")
        return base + timedelta(microseconds=us)

    def td(self) -> timedelta:
        us = self.tape.choice([0, 1, 999999, 1000000, 86400000000, 3600000001, 10**15, 2**40 + 1], "td")
        return timedelta(microseconds=us)

    # -- fields / messages -----------------------------------------------------------------------
    def single(self, fi: FieldInfo, depth: int, in_container: bool = False):
        if fi.proto_type == betterproto.TYPE_MESSAGE:
            if fi.wraps:
                return self.wrapped(fi.wraps)
            if fi.py_cls is datetime:
                return self.dt()
            if fi.py_cls is timedelta:
                return self.td()
            return self.message(fi.py_cls, depth + 1)
        return self.scalar(fi.proto_type, fi.py_cls, in_container=in_container)

    def field_value(self, fi: FieldInfo, depth: int):
        t = self.tape
        if fi.is_map:
            kt, vt = fi.map_types
            out = {}
            for _ in range(1 + t.draw(2, "map-n")):
                k = self.scalar(kt, in_container=True, nonempty_str=True)
                if vt == betterproto.TYPE_MESSAGE:
                    v = self.message(fi.map_value_cls, depth + 1)
                elif vt == betterproto.TYPE_ENUM:
                    v = self.scalar(vt, fi.map_value_cls, in_container=True)
                else:
                    v = self.scalar(vt, in_container=True)
                out[k] = v
            return out
        if fi.repeated:
            return [self.single(fi, depth, in_container=True) for _ in range(t.draw(4, "rep-n"))]
        return self.single(fi, depth)

    def message(self, cls, depth: int = 0):
        t = self.tape
        ci = class_info(cls)
        if depth > self.max_depth:
            return cls()
        kwargs = {}
        done = set()
        den = 3 if depth == 0 else 4
        for fi in ci.fields:
            if fi.group:
                if fi.group in done:
                    continue
                done.add(fi.group)
                members = ci.groups[fi.group]
                k = t.draw(len(members) + 1, "oneof")
                if k:
                    kwargs[members[k - 1].name] = self.field_value(members[k - 1], depth)
                continue
            if not t.chance(1, den, "set?"):
                continue
            kwargs[fi.name] = self.field_value(fi, depth)
        return cls(**kwargs)


def short(m, limit: int = 160) -> str:
    """A deterministic, address-free one-line rendering of a message for traces."""
    try:
        r = repr(m)
    except Exception as e:  # noqa: BLE001
        r = f"<repr failed: {type(e).__name__}>"
    if len(r) > limit:
        import hashlib
        r = r[:limit] + f"...(+{len(r) - limit} chars, sha1 {hashlib.sha1(r.encode('utf-8', 'backslashreplace')).hexdigest()[:8]})"
    return r
