"""streamsim — C10: delimited streams read back intact; truncation never yields a partial message.

Simulated system: a SimFile (append-only log + visibility frontier), writers appending frames
(betterproto dump(SIZE_DELIMITED) or the reference's serialize_length_prefixed), readers tailing
it (betterproto load(SIZE_DELIMITED) with the writer's schema or an older one, or the reference's
parse_length_prefixed), and the "disk" which decides how much of the log is visible / durable.
Faults: every cut point (exhaustively for short streams), writer crash, EIO from read(),
ENOSPC from write() (torn tail).
"""
from __future__ import annotations

import hashlib
import io
from typing import Any, List, Optional, Tuple

from google.protobuf import proto as gproto

from . import repo  # noqa: F401
import betterproto
from . import schemas, wire
from .engine import Simulator, Violation
from .refpeer import RefSchema
from .simfile import SimFile
from .valgen import Gen, class_info, short

SD = betterproto.SIZE_DELIMITED
FOREIGN_UNKNOWN = [
    wire.f_group(4000, wire.f_varint(1, 7) + wire.f_len(2, b"in-group")),
    wire.f_group(5000, wire.f_group(5001, wire.f_i32(3, b"abcd"))),
    wire.f_i32(4001, b"\x01\x02\x03\x04"),
    wire.f_i64(4002, b"\x01\x02\x03\x04\x05\x06\x07\x08"),
    wire.f_varint(300000, 2**63),
    wire.f_len(4003, b""),
    wire.f_len(2047, b"\xff" * 3),
]

RULES = {
    "C10.S1": "successive load(SIZE_DELIMITED) calls return the written sequence, each consuming exactly its "
              "own frame (incl. empty messages, messages with unknown fields, messages of different types; "
              "reader schema equal to or older than the writer's)",
    "C10.S2": "the framing is varint(len(payload)) || payload, what the reference implementation reads and writes",
    "C10.S3": "if the stream is cut at any byte, every load either returns a message equal to the one written "
              "or raises; never a silently shortened message",
    "C10.S4": "once the whole stream is visible and faults have stopped, a tailing reader that retries obtains "
              "all remaining messages within frames+1 attempts",
}


def _h(b: bytes) -> str:
    return hashlib.sha1(bytes(b)).hexdigest()[:10]


class _Frame:
    __slots__ = ("cls", "msg", "writer", "payload", "start", "pstart", "end", "relayed", "reader_cls",
                 "expected", "writer_cls", "has_group")


class _Run:
    def __init__(self, sim: "StreamSim", tape, trace, stats):
        self.sim = sim
        self.tape = tape
        self.trace = trace
        self.stats = stats
        self.evals = 0

    # -- helpers ------------------------------------------------------------------------------
    def _load(self, reader_cls, stream):
        """One load attempt.  Returns ('ok', msg) or ('raise', exc)."""
        try:
            m = reader_cls().load(stream, SD)
        except Exception as e:  # noqa: BLE001
            return "raise", e
        return "ok", m

    def _same(self, fr: _Frame, got) -> Optional[str]:
        """None if `got` is the message of frame fr as seen by fr.reader_cls; else a reason."""
        exp = fr.expected
        if type(got) is not type(exp):
            return f"type {type(got).__name__}"
        try:
            if got != exp:
                return f"!= expected: got {short(got)} expected {short(exp)}"
            gb = bytes(got)
        except Exception as e:  # noqa: BLE001
            return f"comparison/encoding raised {type(e).__name__}: {e}"
        if gb != bytes(exp):
            return f"re-encodes differently (unknown fields / presence): {gb.hex()[:80]} vs {bytes(exp).hex()[:80]}"
        return None

    def _mutate_in_place(self, msg, cls, gen) -> Optional[str]:
        tape = self.tape
        ci = class_info(cls)

        def plain_sub(fi):
            return (fi.proto_type == "message" and not fi.wraps and not fi.group and not fi.optional and not fi.repeated
                    and not fi.is_map and isinstance(fi.py_cls, type) and issubclass(fi.py_cls, betterproto.Message))
        cands = [fi for fi in ci.fields if fi.repeated or fi.is_map or plain_sub(fi)]
        if not cands:
            return None
        fi = tape.choice(cands, "inplace-field")
        cur = getattr(msg, fi.name)
        if fi.is_map:
            k, v = next(iter(gen.field_value(fi, 1).items()))
            cur[k] = v
            return f"{fi.name}[{k!r}] = .."
        if fi.repeated:
            if cur and tape.draw(3, "inplace-shrink") == 2:
                cur.clear()
                return f"{fi.name}.clear()"
            cur.append(gen.single(fi, 1, in_container=True))
            return f"{fi.name}.append(..)"
        sub_fields = [f2 for f2 in class_info(fi.py_cls).fields
                      if not (f2.repeated or f2.is_map or f2.group or f2.optional or f2.proto_type == "message")]
        if not sub_fields:
            return None
        f2 = tape.choice(sub_fields, "inplace-sub-field")
        setattr(cur, f2.name, gen.single(f2, 2))
        return f"{fi.name}.{f2.name} = .."

    # -- the run ------------------------------------------------------------------------------
    def go(self):
        tape, trace, stats = self.tape, self.trace, self.stats
        ref: RefSchema = self.sim.ref
        gen = Gen(tape, big=True, nan=False, negzero=True)      # equality of NaN-holding messages is not C10's business
        n_frames = 1 + tape.draw(6, "n_frames")
        f = SimFile()
        # what kind of object the readers hand to load(): duck-typed, raw (unbuffered) or buffered file object
        f.reader_kind = tape.weighted([3, 1, 1], "reader-kind")
        stats[f"probe:reader-kind-{('plain', 'raw', 'buffered')[f.reader_kind]}"] += 1
        frames: List[_Frame] = []
        # reader schema per class: same, or older (a tape-chosen subset of top-level fields dropped)
        reader_for = {}

        def reader_cls_of(cls):
            if cls not in reader_for:
                rc = cls
                names = [fi.name for fi in class_info(cls).fields]
                if names and tape.draw(3, "older-reader?") == 2:
                    drop = [n for n in names if tape.draw(3, "drop?") == 2]
                    if drop:
                        rc = schemas.older_version(cls, drop)
                        stats["probe:older-schema-reader"] += 1
                reader_for[cls] = rc
            return reader_for[cls]

        # ---- writers append frames, taking turns at frame granularity
        enospc_frame = None
        for k in range(n_frames):
            fr = _Frame()
            cls = tape.choice(schemas.ALL, "cls")
            fr.cls = cls
            fr.relayed = False
            msg = gen.message(cls)
            wkind = tape.weighted([5, 2, 2, 1], "writer")  # 0 betterproto, 1 reference, 2 relay via older schema, 3 foreign
            wcls = cls
            reused = None
            if wkind == 0 and tape.draw(4, "redump-after-in-place-change?") == 3:
                # a long-lived object: dumped earlier on this stream, changed IN PLACE since (list.append, map
                # store, attribute of a nested message - nothing the root's __setattr__ sees), dumped again
                olds = [o for o in frames if o.writer == "bp" and o.writer_cls is o.cls and o.msg is not None]
                if olds:
                    old = tape.choice(olds, "redump-which")
                    obj = old.msg
                    try:
                        len(obj)                                   # a reader of the size, as dump() is
                        snapshot = old.cls().parse(old.payload)
                    except Exception as e:  # noqa: BLE001
                        raise Violation("C10.S1", f"parse-raised-{type(e).__name__}", f"re-reading frame payload: {e}")
                    how = self._mutate_in_place(obj, old.cls, gen)
                    if how:
                        old.msg = snapshot                         # the earlier frame keeps what was written then
                        cls = fr.cls = old.cls
                        wcls = cls
                        msg = obj
                        reused = how
                        stats["probe:object-dumped-again-after-in-place-change"] += 1
            if wkind == 2:
                names = [fi.name for fi in class_info(cls).fields]
                drop = [n for n in names if tape.draw(2, "relay-drop?")]
                if drop:
                    wcls = schemas.older_version(cls, drop)
                    try:
                        msg = wcls().parse(bytes(msg))      # the relay holds unknown fields now
                    except Exception as e:  # noqa: BLE001
                        raise Violation("C10.S1", f"relay-parse-raised-{type(e).__name__}", f"{e}")
                    fr.relayed = True
                    stats["probe:frame-with-unknown-fields"] += 1
                else:
                    wkind = 0
            fr.writer_cls = wcls
            fr.msg = msg
            fr.writer = ("bp", "ref", "bp-relay", "foreign")[wkind]
            try:
                payload = bytes(msg)
            except Exception as e:  # noqa: BLE001
                raise Violation("C10.S2", f"bytes-raised-{type(e).__name__}", f"bytes() of {short(msg)}: {e}")
            fr.payload = payload
            fr.start = len(f.data)
            # ENOSPC / crash only ever hits the last frame (a torn tail; nobody appends after it)
            fail_call = None
            if k == n_frames - 1 and wkind in (0, 2) and tape.draw(8, "enospc?") == 7:
                fail_call = tape.draw(4, "enospc-call")
                enospc_frame = k
            if wkind == 3:
                # a foreign (e.g. proto2 / newer-schema) writer: the same payload plus occurrences no schema
                # here knows - a group, fixed-width fields, field numbers with 2- and 3-byte tags
                extra = b""
                for _ in range(1 + tape.draw(3, "foreign-n")):
                    occ = tape.choice(FOREIGN_UNKNOWN, "foreign-occ")
                    extra += occ
                    if occ[:1] and (occ[0] & 7) == wire.SGROUP or occ in FOREIGN_UNKNOWN[:2]:
                        fr.has_group = True
                payload = payload + extra if tape.draw(2, "foreign-front") == 0 else extra + payload
                fr.payload = payload
                f.writer().write(wire.enc_varint(len(payload)) + payload)
                chunk = bytes(f.data[fr.start:])
                stats["probe:foreign-writer-frame-with-group-or-odd-unknowns"] += 1
            elif wkind == 1:
                pb = ref.pb_class(cls).FromString(payload)
                buf = io.BytesIO()
                gproto.serialize_length_prefixed(pb, buf)
                chunk = buf.getvalue()
                # upb emits map entries in an order that varies between processes; keep the
                # reference's own length prefix but use its deterministic payload encoding
                # (same length by construction) so that one tape is one execution.
                n0, p0 = wire.dec_varint(chunk, 0)
                det = pb.SerializeToString(deterministic=True)
                if n0 != len(det) or len(chunk) != p0 + n0:
                    raise RuntimeError("reference framing is not varint(len)||payload")
                chunk = chunk[:p0] + det
                f.writer().write(chunk)
                stats["probe:reference-writer-frame"] += 1
            else:
                w = f.writer(fail_at_call=fail_call, partial=tape.draw(3, "partial") if fail_call is not None else 0)
                try:
                    msg.dump(w, SD)
                except OSError as e:
                    if fail_call is None or w.calls <= fail_call:
                        raise Violation("C10.S2", "dump-raised-OSError", f"dump raised {e} without an injected fault")
                    if bytes(f.data[fr.start:]) == wire.enc_varint(len(payload)) + payload:
                        # the failing write() had already stored its last byte: the frame is whole
                        enospc_frame = None
                        stats["fault:write-enospc-after-complete-frame"] += 1
                    else:
                        stats["fault:write-enospc-torn-tail"] += 1
                except Exception as e:  # noqa: BLE001
                    raise Violation("C10.S2", f"dump-raised-{type(e).__name__}", f"dump of {short(msg)}: {e}")
                else:
                    if fail_call is not None:
                        enospc_frame = None     # the message had fewer write calls than the fault index
                chunk = bytes(f.data[fr.start:])
            fr.end = len(f.data)
            frames.append(fr)
            if not payload:
                stats["probe:empty-message-frame"] += 1
            if len(payload) > 4096:
                stats["probe:big-frame"] += 1
            torn = (enospc_frame == k)
            # ---- S2: framing, judged without the code under test
            if not torn:
                want = wire.enc_varint(len(payload)) + payload
                if wkind == 3:
                    pass
                elif wkind != 1:
                    if chunk != want:
                        raise Violation("C10.S2", "bad-framing",
                                        f"frame {k} ({cls.__name__} {short(msg)}): dump wrote prefix+payload "
                                        f"{chunk[:24].hex()}.. ({len(chunk)} bytes) but varint(len(bytes(m)))||bytes(m) is "
                                        f"{want[:24].hex()}.. ({len(want)} bytes)")
                    # ... and the reference reads it back
                    try:
                        pbm = gproto.parse_length_prefixed(ref.pb_class(cls), io.BytesIO(chunk))
                        ok = pbm is not None and pbm.SerializeToString(deterministic=True) == \
                            ref.pb_class(cls).FromString(payload).SerializeToString(deterministic=True)
                    except Exception as e:  # noqa: BLE001
                        raise Violation("C10.S2", "reference-cannot-read", f"frame {k}: {type(e).__name__}: {e}")
                    if not ok:
                        raise Violation("C10.S2", "reference-reads-differently", f"frame {k} {short(msg)}")
                    stats["probe:reference-reader-frame"] += 1
                else:
                    # reference wrote it: the payload is the reference's own encoding of the same value
                    n, p = wire.dec_varint(chunk, 0)
                    fr.payload = payload = chunk[p:]
                    assert n == len(payload)
            fr.pstart = fr.start + len(wire.enc_varint(len(payload)))
            if reused:
                trace.append(f"frame {k} is an object dumped before, changed in place since: {reused}")
            trace.append(f"frame {k}: {cls.__name__} writer={fr.writer} bytes=[{fr.start},{fr.end}) "
                         f"payload={len(payload)}B sha1={_h(payload)} {'TORN ' if torn else ''}{short(msg, 100)}")

        whole = bytes(f.data)
        good = frames[:-1] if enospc_frame is not None else frames
        # independent frame parser agrees on the boundaries of every intact frame
        try:
            spans = wire.frames(whole[: good[-1].end] if good else b"")
        except wire.WireError as e:
            raise Violation("C10.S2", "stream-not-framed", f"independent parser: {e}")
        if [(s.start, s.end) for s in spans] != [(fr.start, fr.end) for fr in good]:
            raise Violation("C10.S2", "frame-boundaries", "independent parser sees other frame boundaries")

        # ---- expected message per frame, as seen by its reader schema
        for k, fr in enumerate(good):
            rc = reader_cls_of(fr.cls) if not fr.relayed else fr.writer_cls
            fr.reader_cls = rc
            try:
                fr.expected = rc().parse(fr.payload)
            except Exception as e:  # noqa: BLE001
                if getattr(fr, "has_group", False):
                    # a decoder may reject proto2 groups altogether (C17 lets any input be rejected, and no
                    # betterproto writer puts a group on a stream): recorded, and nothing else is judged
                    stats["recorded:group-bearing-foreign-frame-rejected"] += 1
                    trace.append(f"frame {k} carries a group and the decoder rejects it ({type(e).__name__}); run not judged")
                    return False, self.evals, float(self.evals)
                raise Violation("C10.S1", f"parse-raised-{type(e).__name__}",
                                f"in-memory parse of intact payload of frame {k} raised: {e}")
        trace.append("readers: " + ", ".join(f"{fr.cls.__name__}->{fr.reader_cls.__name__}" for fr in good))

        # ---- S1: fault-free pass, whole stream visible
        f.flush_all()
        r = f.reader()
        for k, fr in enumerate(good):
            self.evals += 1
            st, got = self._load(fr.reader_cls, r)
            if st == "raise":
                raise Violation("C10.S1", f"load-raised-{type(got).__name__}",
                                f"intact stream, frame {k} ({fr.cls.__name__} as {fr.reader_cls.__name__}, "
                                f"{short(fr.msg, 120)}): load raised {type(got).__name__}: {got}")
            why = self._same(fr, got)
            if why:
                raise Violation("C10.S1", "wrong-message", f"intact stream, frame {k}: {why}")
            if r.tell() != fr.end:
                raise Violation("C10.S1", "consumed-wrong-span",
                                f"frame {k} occupies [{fr.start},{fr.end}) but load left the stream at {r.tell()}")
            # a relay: what was loaded is written again - same framing rule, unknown fields included
            try:
                out = io.BytesIO()
                got.dump(out, SD)
                gb = bytes(got)
            except Exception as e:  # noqa: BLE001
                raise Violation("C10.S2", f"relay-dump-raised-{type(e).__name__}", f"frame {k}: {e}")
            if out.getvalue() != wire.enc_varint(len(gb)) + gb:
                raise Violation("C10.S2", "bad-framing",
                                f"frame {k} ({fr.cls.__name__} as {fr.reader_cls.__name__}) loaded and dumped again: wrote "
                                f"{out.getvalue()[:24].hex()}.. but varint(len(bytes(m)))||bytes(m) is "
                                f"{(wire.enc_varint(len(gb)) + gb)[:24].hex()}..")
            if fr.reader_cls is fr.cls and fr.writer == "bp":
                if got != fr.msg:
                    raise Violation("C10.S1", "not-equal-to-written", f"frame {k}: {short(got)} != {short(fr.msg)}")
            elif fr.reader_cls is not fr.cls and not fr.relayed:
                # older reader: what it re-emits must give the writer's message back
                try:
                    back = fr.cls().parse(bytes(got))
                except Exception as e:  # noqa: BLE001
                    raise Violation("C10.S1", f"older-reader-reencode-{type(e).__name__}", str(e))
                if back != fr.cls().parse(fr.payload):
                    raise Violation("C10.S1", "older-reader-loses-fields", f"frame {k}")
        if enospc_frame is not None:
            self.evals += 1
            st, got = self._load(reader_cls_of(frames[-1].cls), r)
            if st == "ok":
                raise Violation("C10.S3", "torn-tail-returned-message",
                                f"torn last frame (ENOSPC after {len(whole) - frames[-1].start} bytes) "
                                f"was returned as {short(got)}")

        # ---- S2 again, across frames: the reference implementation reads the whole stream frame by frame,
        #      each parse_length_prefixed consuming exactly one frame (whoever wrote it)
        rs = io.BytesIO(whole[: good[-1].end] if good else b"")
        for k, fr in enumerate(good):
            if fr.relayed:
                pbc = ref.pb_class(fr.cls)
            else:
                pbc = ref.pb_class(fr.cls)
            try:
                pbm = gproto.parse_length_prefixed(pbc, rs)
            except Exception as e:  # noqa: BLE001
                raise Violation("C10.S2", "reference-cannot-read-stream", f"frame {k}: {type(e).__name__}: {e}")
            if pbm is None or rs.tell() != fr.end:
                raise Violation("C10.S2", "reference-consumes-other-span",
                                f"frame {k} occupies [{fr.start},{fr.end}) but the reference reader stopped at {rs.tell()}")
            if pbm.SerializeToString(deterministic=True) != pbc.FromString(fr.payload).SerializeToString(deterministic=True):
                raise Violation("C10.S2", "reference-reads-differently", f"frame {k} (sequential read)")
        stats["probe:reference-read-whole-stream"] += 1

        # ---- S3: cut points
        total = good[-1].end if good else 0
        if total <= 96:
            cuts = list(range(0, total + 1))
            stats["probe:stream-cuts-enumerated-exhaustively"] += 1
        else:
            cs = set()
            for fr in good:
                for d in (-2, -1, 0, 1, 2):
                    cs.add(fr.start + d)
                    cs.add(fr.pstart + d)
                    cs.add(fr.end + d)
            for (off, ln) in f.write_calls:
                cs.add(off)
                cs.add(off + ln)
            for _ in range(32):
                cs.add(tape.draw(total + 1, "cut"))
            cuts = sorted(c for c in cs if 0 <= c <= total)
        inside = 0
        for c in cuts:
            # the frame that contains the cut (frames before it are wholly visible, verified above)
            fr = next((x for x in good if x.start <= c < x.end), None)
            if fr is None:
                continue
            f.frontier = c
            r = f.reader(fr.start)
            self.evals += 1
            st, got = self._load(fr.reader_cls, r)
            if c < fr.pstart:
                stats["fault:cut-inside-length-prefix"] += 1
            else:
                stats["fault:cut-inside-payload"] += 1
                inside += 1
            if st == "ok":
                why = self._same(fr, got)
                k = good.index(fr)
                if why is None and len(fr.payload) == 0 and c >= fr.pstart:
                    continue   # an empty message is complete once its prefix is visible
                raise Violation("C10.S3", "partial-message-returned",
                                f"stream cut at byte {c}, inside frame {k} [{fr.start},{fr.end}) "
                                f"({fr.cls.__name__} as {fr.reader_cls.__name__}): load returned "
                                f"{short(got, 120)} instead of raising; written: {short(fr.expected, 120)}"
                                + (f" [{why[:80]}]" if why else " [equal, yet bytes are missing]"))
        f.flush_all()

        # ---- tailing reader against a moving frontier, with read faults (S3, S4)
        self._tail(f, good, frames, enospc_frame)
        trace.append(f"evaluations={self.evals} cuts={len(cuts)} total_bytes={total}")
        return inside > 0, self.evals, float(self.evals)

    def _tail(self, f: SimFile, good: List[_Frame], frames, enospc_frame) -> None:
        tape, trace, stats = self.tape, self.trace, self.stats
        total = len(f.data)
        f.frontier = 0
        pos = 0            # last good offset
        k = 0              # next frame expected
        steps = 0
        crashed_at = None
        if tape.draw(6, "writer-crash?") == 5 and total:
            crashed_at = tape.draw(total + 1, "crash-at")
            stats["fault:writer-crash-prefix-durable"] += 1
        limit = total if crashed_at is None else crashed_at
        log = []
        while True:
            steps += 1
            if steps > 200:
                raise RuntimeError("BUDGET: the tailing reader of the harness made 200 attempts")   # HARNESS, no verdict
            # the disk makes more bytes visible
            if f.frontier < limit:
                adv = [1, 2, 3, 5, 8, 21, 64, 4096, 1 << 20][tape.draw(9, "advance")]
                f.frontier = min(limit, f.frontier + adv)
            at_end = f.frontier >= limit
            # the reader attempts as many loads as succeed
            attempts_after_end = 0
            while k < len(frames):
                fr = frames[k]
                fail_read = None
                if tape.draw(10, "eio?") == 9:
                    fail_read = tape.draw(6, "eio-at")
                r = f.reader(pos, fail_at_read=fail_read)
                self.evals += 1
                rc = fr.reader_cls if k < len(good) else fr.cls
                st, got = self._load(rc, r)
                if fail_read is not None and r.reads > fail_read:
                    stats["fault:read-eio"] += 1
                    if st == "ok":
                        raise Violation("C10.S3", "message-despite-read-error",
                                        f"read() raised EIO at call {fail_read} while loading frame {k}, "
                                        f"yet load returned {short(got, 100)}")
                    log.append(f"f{k}@{f.frontier}:EIO")
                    continue                      # retry from the last good offset
                complete = k < len(good) and f.frontier >= fr.end
                if st == "raise":
                    if complete:
                        raise Violation("C10.S4", f"complete-frame-not-loaded-{type(got).__name__}",
                                        f"frame {k} [{fr.start},{fr.end}) wholly visible (frontier {f.frontier}) "
                                        f"but load raised {type(got).__name__}: {got}")
                    log.append(f"f{k}@{f.frontier}:{type(got).__name__}")
                    break                         # wait for more bytes
                # a message came back
                if k >= len(good):
                    raise Violation("C10.S3", "torn-tail-returned-message",
                                    f"torn frame {k} returned {short(got, 100)}")
                why = self._same(fr, got)
                if not complete:
                    if why is None and len(fr.payload) == 0 and f.frontier >= fr.pstart:
                        pass
                    else:
                        raise Violation("C10.S3", "partial-message-returned",
                                        f"tailing reader: frontier {f.frontier} inside frame {k} "
                                        f"[{fr.start},{fr.end}) yet load returned {short(got, 100)}")
                elif why:
                    raise Violation("C10.S1", "wrong-message", f"tailing reader, frame {k}: {why}")
                if r.tell() != fr.end:
                    raise Violation("C10.S1", "consumed-wrong-span",
                                    f"tailing reader: frame {k} ends at {fr.end}, stream left at {r.tell()}")
                log.append(f"f{k}@{f.frontier}:ok")
                pos = fr.end
                k += 1
            if at_end:
                break
        want = sum(1 for fr in good if fr.end <= limit)
        if k != want:
            raise Violation("C10.S4", "tail-missed-frames", f"frontier at {limit}: {want} whole frames visible, reader got {k}")
        if crashed_at is not None:
            stats["probe:tail-reader-survived-writer-crash"] += 1
        trace.append(f"tail(limit={limit}): " + " ".join(log[:60]))


class StreamSim(Simulator):
    isolate_runs = True
    crash_rule = "C10.S1"
    name = "streamsim"
    property_id = "C10"
    level = "fault_enumeration"
    rules = RULES
    generation_rule = ("Each history draws 1-6 frames of mixed message types and boundary-biased values (static "
                       "domain, see valgen), each written by betterproto dump(SIZE_DELIMITED), by a betterproto relay "
                       "that parsed the message with an older schema (carries unknown fields), by the reference "
                       "serialize_length_prefixed, or by a foreign writer that adds groups and odd unknown fields; every loaded "
                       "message is also dumped again (relay); reader schema per type is the writer's or an older one. Fault "
                       "space per history: EVERY cut point 0..len for streams <= 96 bytes (else all frame, prefix and "
                       "write-call boundaries +-2 and 32 drawn points), a tailing reader against a tape-driven "
                       "frontier with EIO on the k-th read, writer crash, ENOSPC on the k-th write (torn tail).")
    nontrivial_rule = "at least one cut fell strictly inside the payload of a frame and was evaluated."
    sim_time_unit = "logical I/O steps (load attempts)"
    components_real = ["betterproto Message.dump/load/parse/__bytes__/__len__, load_varint, dump_varint",
                       "google.protobuf 7.x (upb) serialize_length_prefixed / parse_length_prefixed / FromString"]
    components_stub = ["file / pipe (SimFile with visibility frontier)", "I/O errors (EIO, ENOSPC)"]
    assumptions = ["streams are buffered: EOF is the only reason for a short read",
                   "value domain excludes documented codec limitations (valgen docstring)",
                   "reference classes are built from the betterproto dataclasses via a FileDescriptorProto"]
    tiers = {
        "quick": dict(runs=12000, chunk=100, wall_cap=300, det_sample=100),
        "thorough": dict(runs=600000, chunk=500, wall_cap=1500, det_sample=2000),
    }
    expected_probes = ["probe:older-schema-reader", "probe:frame-with-unknown-fields", "probe:empty-message-frame",
                       "probe:big-frame", "fault:read-eio", "fault:write-enospc-torn-tail",
                       "fault:writer-crash-prefix-durable", "fault:cut-inside-length-prefix"]

    def prepare(self, tier):
        schemas.warm()
        self.ref = RefSchema(schemas.ALL)

    def adopt(self, state):
        self.prepare("quick")

    def execute(self, tape, trace, stats):
        return _Run(self, tape, trace, stats).go()
