"""Decision tape: the single source of every choice a simulator makes.

Search mode  : backed by random.Random(H(VERIF_SEED, property, run_index)); records every draw.
Replay mode  : backed by a recorded list of ints; a draw past the end, or a recorded value that is
               out of range for the draw site, yields 0.  Hence *every* list of ints is a valid
               tape, which is what lets the minimiser operate on the list directly.
Convention   : at every draw site 0 is the simplest outcome (no fault, zero delay, FIFO head,
               fewest actors, smallest value).
"""
from __future__ import annotations

import hashlib
import random
from typing import List, Optional, Sequence


def derive_seed(verif_seed: int, prop: str, run_index: int) -> int:
    h = hashlib.sha256(f"{verif_seed}:{prop}:{run_index}".encode()).digest()
    return int.from_bytes(h[:8], "big")


class Tape:
    __slots__ = ("_rng", "_rec", "_pos", "log", "labels", "_keep_labels")

    def __init__(self, rng: Optional[random.Random] = None,
                 recorded: Optional[Sequence[int]] = None, keep_labels: bool = False):
        assert (rng is None) != (recorded is None)
        self._rng = rng
        self._rec = list(recorded) if recorded is not None else None
        self._pos = 0
        self.log: List[int] = []
        self._keep_labels = keep_labels
        self.labels: List[str] = []

    @classmethod
    def search(cls, verif_seed: int, prop: str, run_index: int) -> "Tape":
        return cls(rng=random.Random(derive_seed(verif_seed, prop, run_index)))

    @classmethod
    def replay(cls, recorded: Sequence[int], keep_labels: bool = False) -> "Tape":
        return cls(recorded=recorded, keep_labels=keep_labels)

    def draw(self, n: int, label: str = "") -> int:
        """An integer in [0, n).  n <= 1 consumes nothing."""
        if n <= 1:
            return 0
        if self._rng is not None:
            v = self._rng.randrange(n)
        else:
            rec = self._rec
            if self._pos < len(rec):
                v = rec[self._pos]
                if not (0 <= v < n):
                    v = 0
            else:
                v = 0
            self._pos += 1
        self.log.append(v)
        if self._keep_labels:
            self.labels.append(label)
        return v

    # -- helpers, all expressed through draw() so that 0 stays "simplest" -----------------

    def chance(self, num: int, den: int, label: str = "") -> bool:
        """True with probability num/den; a zero draw is always False (unless num == den)."""
        return self.draw(den, label) >= den - num

    def choice(self, seq, label: str = ""):
        return seq[self.draw(len(seq), label)]

    def weighted(self, weights: Sequence[int], label: str = "") -> int:
        """Index i with probability weights[i]/sum; index 0 is the zero draw."""
        total = sum(weights)
        v = self.draw(total, label)
        acc = 0
        for i, w in enumerate(weights):
            acc += w
            if v < acc:
                return i
        return len(weights) - 1

    def rng_bytes(self, n: int, label: str = "") -> bytes:
        return bytes(self.draw(256, label) for _ in range(n))


# ---------------------------------------------------------------------------------------------
# Minimiser
# ---------------------------------------------------------------------------------------------

def minimise(tape: List[int], fails, budget: int = 400, time_budget: float = 20.0) -> List[int]:
    """Shrink `tape` while `fails(candidate)` stays true.

    `fails` must return True iff executing the candidate produces the *same violation class*.
    Strategy: shortest failing prefix; delete blocks 8/4/2/1; zero entries; halve / decrement.
    """
    import time as _time
    calls = [0]
    t_end = _time.time() + time_budget     # wall clock bounds the *effort* only, never a verdict

    def ok(c: List[int]) -> bool:
        if calls[0] >= budget or _time.time() > t_end:
            calls[0] = budget
            return False
        calls[0] += 1
        return bool(fails(c))

    cur = list(tape)
    # strip trailing zeros: equivalent by construction (draw past the end == 0)
    while cur and cur[-1] == 0:
        cur.pop()

    # 1. shortest failing prefix (binary search, then verified)
    lo, hi = 0, len(cur)
    while lo < hi and calls[0] < budget:
        mid = (lo + hi) // 2
        if ok(cur[:mid]):
            hi = mid
        else:
            lo = mid + 1
    if hi < len(cur) and ok(cur[:hi]):
        cur = cur[:hi]

    changed = True
    while changed and calls[0] < budget:
        changed = False
        # 2. delete blocks
        for size in (8, 4, 2, 1):
            i = 0
            while i < len(cur) and calls[0] < budget:
                cand = cur[:i] + cur[i + size:]
                if len(cand) < len(cur) and ok(cand):
                    cur = cand
                    changed = True
                else:
                    i += 1 if size == 1 else size
        # 3. zero entries
        for i in range(len(cur)):
            if cur[i] != 0 and calls[0] < budget:
                cand = list(cur)
                cand[i] = 0
                if ok(cand):
                    cur = cand
                    changed = True
        # 4. halve / decrement
        for i in range(len(cur)):
            while cur[i] > 1 and calls[0] < budget:
                cand = list(cur)
                cand[i] = cur[i] // 2
                if ok(cand):
                    cur = cand
                    changed = True
                else:
                    cand[i] = cur[i] - 1
                    if ok(cand):
                        cur = cand
                        changed = True
                    else:
                        break
        while cur and cur[-1] == 0:
            cur.pop()
    return cur
