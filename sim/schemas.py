"""Hand-written betterproto message classes (public field API) used by streamsim and objsim, and
derivation of *older* schema versions by deleting fields.

They mirror what the plugin emits (dataclass(eq=False, repr=False), optional=True without group,
group="name" for oneof members), but do not depend on the plugin, so that runtime checks keep
working when the plugin is being changed.
"""
from __future__ import annotations

import dataclasses
import typing
from dataclasses import dataclass
from datetime import datetime, timedelta
from typing import Dict, List, Optional

from . import repo  # noqa: F401
import betterproto


class Color(betterproto.Enum):
    ZERO = 0
    RED = 1
    GREEN = 2
    BLUE = 5
    BIG = 2147483647


@dataclass(eq=False, repr=False)
class Empty(betterproto.Message):
    pass


@dataclass(eq=False, repr=False)
class Leaf(betterproto.Message):
    x: int = betterproto.int32_field(1)
    s: str = betterproto.string_field(2)


@dataclass(eq=False, repr=False)
class Node(betterproto.Message):
    v: int = betterproto.sint64_field(1)
    child: "Node" = betterproto.message_field(2)
    kids: List["Node"] = betterproto.message_field(3)
    leaf: "Leaf" = betterproto.message_field(4)
    name: str = betterproto.string_field(5)
    void: "Empty" = betterproto.message_field(6)      # a plain (not optional, not oneof) message type without fields


@dataclass(eq=False, repr=False)
class Scalars(betterproto.Message):
    f_double: float = betterproto.double_field(1)
    f_float: float = betterproto.float_field(2)
    f_int32: int = betterproto.int32_field(3)
    f_int64: int = betterproto.int64_field(4)
    f_uint32: int = betterproto.uint32_field(5)
    f_uint64: int = betterproto.uint64_field(6)
    f_sint32: int = betterproto.sint32_field(7)
    f_sint64: int = betterproto.sint64_field(8)
    f_fixed32: int = betterproto.fixed32_field(9)
    f_fixed64: int = betterproto.fixed64_field(10)
    f_sfixed32: int = betterproto.sfixed32_field(11)
    f_sfixed64: int = betterproto.sfixed64_field(12)
    f_bool: bool = betterproto.bool_field(13)
    f_string: str = betterproto.string_field(14)
    f_bytes: bytes = betterproto.bytes_field(15)
    f_enum: "Color" = betterproto.enum_field(16)
    f_far: int = betterproto.uint32_field(1000)          # two-byte tag
    f_farther: str = betterproto.string_field(70000)     # three-byte tag


@dataclass(eq=False, repr=False)
class Containers(betterproto.Message):
    r_int32: List[int] = betterproto.int32_field(1)
    r_string: List[str] = betterproto.string_field(2)
    r_leaf: List["Leaf"] = betterproto.message_field(3)
    r_double: List[float] = betterproto.double_field(4)
    r_enum: List["Color"] = betterproto.enum_field(5)
    r_bytes: List[bytes] = betterproto.bytes_field(6)
    r_sint64: List[int] = betterproto.sint64_field(7)
    r_fixed32: List[int] = betterproto.fixed32_field(8)
    r_bool: List[bool] = betterproto.bool_field(9)
    m_str_int: Dict[str, int] = betterproto.map_field(10, betterproto.TYPE_STRING, betterproto.TYPE_INT32)
    m_int_leaf: Dict[int, "Leaf"] = betterproto.map_field(11, betterproto.TYPE_INT32, betterproto.TYPE_MESSAGE)
    m_str_str: Dict[str, str] = betterproto.map_field(12, betterproto.TYPE_STRING, betterproto.TYPE_STRING)
    m_int_enum: Dict[int, "Color"] = betterproto.map_field(13, betterproto.TYPE_SINT32, betterproto.TYPE_ENUM)
    tail: int = betterproto.int32_field(14)


@dataclass(eq=False, repr=False)
class Oneofs(betterproto.Message):
    before: int = betterproto.int32_field(1)
    c_int: int = betterproto.int32_field(2, group="choice")
    c_str: str = betterproto.string_field(3, group="choice")
    c_bytes: bytes = betterproto.bytes_field(4, group="choice")
    c_enum: "Color" = betterproto.enum_field(5, group="choice")
    c_leaf: "Leaf" = betterproto.message_field(6, group="choice")
    c_bool: bool = betterproto.bool_field(7, group="choice")
    a_sint: int = betterproto.sint32_field(8, group="alt")
    a_empty: "Empty" = betterproto.message_field(9, group="alt")
    a_double: float = betterproto.double_field(10, group="alt")
    t_node: "Node" = betterproto.message_field(11, group="third")
    t_fixed: int = betterproto.fixed32_field(12, group="third")
    after: str = betterproto.string_field(13)
    plain_leaf: "Leaf" = betterproto.message_field(14)


@dataclass(eq=False, repr=False)
class Presence(betterproto.Message):
    o_int32: Optional[int] = betterproto.int32_field(1, optional=True)
    o_str: Optional[str] = betterproto.string_field(2, optional=True)
    o_bytes: Optional[bytes] = betterproto.bytes_field(3, optional=True)
    o_leaf: Optional["Leaf"] = betterproto.message_field(4, optional=True)
    o_enum: Optional["Color"] = betterproto.enum_field(5, optional=True)
    o_bool: Optional[bool] = betterproto.bool_field(6, optional=True)
    o_double: Optional[float] = betterproto.double_field(7, optional=True)
    w_int32: Optional[int] = betterproto.message_field(8, wraps=betterproto.TYPE_INT32)
    w_str: Optional[str] = betterproto.message_field(9, wraps=betterproto.TYPE_STRING)
    w_bool: Optional[bool] = betterproto.message_field(10, wraps=betterproto.TYPE_BOOL)
    ts: datetime = betterproto.message_field(11)
    dur: timedelta = betterproto.message_field(12)
    plain: int = betterproto.int32_field(13)
    sub: "Leaf" = betterproto.message_field(14)
    o_empty: Optional["Empty"] = betterproto.message_field(15, optional=True)


@dataclass(eq=False, repr=False)
class Sink(betterproto.Message):
    """Everything at once, declaration order deliberately not by field number."""
    s: "Scalars" = betterproto.message_field(4)
    c: "Containers" = betterproto.message_field(2)
    o: "Oneofs" = betterproto.message_field(3)
    p: "Presence" = betterproto.message_field(1)
    n: "Node" = betterproto.message_field(5)
    id: int = betterproto.uint64_field(6)
    pick_a: int = betterproto.int64_field(7, group="pick")
    pick_b: "Presence" = betterproto.message_field(8, group="pick")
    tags: List[str] = betterproto.string_field(9)


@dataclass(eq=False, repr=False)
class Exotic(betterproto.Message):
    """Shapes none of the other classes has: repeated well-known types, every remaining wrapper, well-known
    types / a wrapper / a field-less message as oneof members, bool / int64 map keys, field-less messages as
    map values and list elements, a repeated recursive type, the largest legal field number."""
    r_ts: List[datetime] = betterproto.message_field(1)
    r_dur: List[timedelta] = betterproto.message_field(2)
    w_bytes: Optional[bytes] = betterproto.message_field(3, wraps=betterproto.TYPE_BYTES)
    w_double: Optional[float] = betterproto.message_field(4, wraps=betterproto.TYPE_DOUBLE)
    w_int64: Optional[int] = betterproto.message_field(5, wraps=betterproto.TYPE_INT64)
    w_uint32: Optional[int] = betterproto.message_field(6, wraps=betterproto.TYPE_UINT32)
    w_float: Optional[float] = betterproto.message_field(7, wraps=betterproto.TYPE_FLOAT)
    k_ts: datetime = betterproto.message_field(8, group="kind")
    k_dur: timedelta = betterproto.message_field(9, group="kind")
    k_void: "Empty" = betterproto.message_field(10, group="kind")
    k_uint: int = betterproto.uint64_field(11, group="kind")
    m_bool_str: Dict[bool, str] = betterproto.map_field(12, betterproto.TYPE_BOOL, betterproto.TYPE_STRING)
    m_i64_bytes: Dict[int, bytes] = betterproto.map_field(13, betterproto.TYPE_INT64, betterproto.TYPE_BYTES)
    m_str_void: Dict[str, "Empty"] = betterproto.map_field(14, betterproto.TYPE_STRING, betterproto.TYPE_MESSAGE)
    r_void: List["Empty"] = betterproto.message_field(15)
    r_node: List["Node"] = betterproto.message_field(16)
    s_a: int = betterproto.int32_field(17, group="split")     # a oneof whose members are NOT declared next to each other
    mid: int = betterproto.int32_field(18)
    s_b: str = betterproto.string_field(19, group="split")
    last: int = betterproto.int32_field(536870911)


ALL = [Empty, Leaf, Node, Scalars, Containers, Oneofs, Presence, Sink, Exotic]
BY_NAME = {c.__name__: c for c in ALL}
_NS = dict(globals())


def type_hints(cls) -> Dict[str, typing.Any]:
    import sys
    return typing.get_type_hints(cls, vars(sys.modules[cls.__module__]))


_older_cache: Dict[typing.Tuple[str, typing.Tuple[str, ...]], type] = {}


def older_version(cls, drop: typing.Iterable[str]) -> type:
    """A reader-side class for an *older* schema: `cls` without the fields in `drop`.
    Built the way betterproto builds its own map-entry classes (make_dataclass over Message)."""
    drop_t = tuple(sorted(drop))
    key = (cls.__name__, drop_t)
    got = _older_cache.get(key)
    if got is not None:
        return got
    if len(_older_cache) >= 256:
        # bound the memory of a long-lived worker; class identity never reaches a trace or a verdict
        from . import valgen
        for c in list(valgen._info_cache):
            if hasattr(c, "__verif_base__"):
                del valgen._info_cache[c]
        _older_cache.clear()
    hints = type_hints(cls)
    fields = []
    for f in dataclasses.fields(cls):
        if f.name in drop_t:
            continue
        meta = f.metadata["betterproto"]
        fields.append((f.name, hints[f.name],
                       betterproto.dataclass_field(meta.number, meta.proto_type, map_types=meta.map_types,
                                                   group=meta.group, wraps=meta.wraps,
                                                   optional=bool(meta.optional))))
    import hashlib
    tag_ = hashlib.sha1(",".join(drop_t).encode()).hexdigest()[:8]
    new = dataclasses.make_dataclass(f"{cls.__name__}_old_{tag_}", fields,
                                     bases=(betterproto.Message,), eq=False, repr=False)
    new.__module__ = __name__
    new.__verif_base__ = cls
    new.__verif_dropped__ = drop_t
    _older_cache[key] = new
    return new


def warm() -> None:
    """Initialise betterproto's per-class lazy metadata before any traced run."""
    for c in ALL:
        c._betterproto
        c()
