"""Runner shared by all simulators: seeded search over tapes on all cores, minimisation, replay
files, known findings, determinism self-test, evidence.

Exit codes: 0 = property held on everything explored (maybe with KNOWN-FINDING lines)
            1 = VIOLATION property=<id> replay=<path>
            2 = harness failure (never confusable with 0 or 1)
"""
from __future__ import annotations

import argparse
import array
import collections
import concurrent.futures as cf
import dataclasses
import faulthandler
import gc
import hashlib
import json
import multiprocessing
import os
import re
import subprocess
import sys
import time
import traceback
import warnings
from typing import Any, Dict, List, Optional, Tuple

from .tape import Tape, minimise

VERIF_DIR = os.path.dirname(os.path.dirname(os.path.abspath(__file__)))
REPO_DIR = os.environ.get("VERIF_REPO", "/repo")
_OUT = os.environ.get("VERIF_SCRATCH_OUT")   # mutant self-tests must not touch the real evidence
EVIDENCE_DIR = os.path.join(_OUT or VERIF_DIR, "evidence")
REPLAY_DIR = os.path.join(_OUT or VERIF_DIR, "replays")
KNOWN_FINDINGS = os.path.join(VERIF_DIR, "known_findings.json")


class Violation(Exception):
    """Raised by an oracle rule.  (rule, sig) is the *violation class* used for minimisation
    and for matching known findings; message is free text."""

    def __init__(self, rule: str, sig: str, message: str):
        super().__init__(f"{rule} [{sig}] {message}")
        self.rule = rule
        self.sig = sig
        self.message = message


@dataclasses.dataclass
class RunResult:
    outcome: str                      # "OK" | "VIOLATION" | "HARNESS"
    rule: str = ""
    sig: str = ""
    message: str = ""
    trace: List[str] = dataclasses.field(default_factory=list)
    stats: collections.Counter = dataclasses.field(default_factory=collections.Counter)
    nontrivial: bool = False
    steps: int = 0
    sim_time: float = 0.0
    tape: List[int] = dataclasses.field(default_factory=list)

    def digest(self) -> str:
        h = hashlib.sha256()
        for line in self.trace:
            h.update(line.encode("utf-8", "backslashreplace"))
            h.update(b"\n")
        h.update(f"{self.outcome}|{self.rule}|{self.sig}".encode())
        return h.hexdigest()


class Simulator:
    """Base class.  A simulator is stateless between runs."""

    name = "sim"
    property_id = "C00"
    level = "exploration"
    rules: Dict[str, str] = {}
    nontrivial_rule = ""
    generation_rule = ""
    components_real: List[str] = []
    components_stub: List[str] = []
    assumptions: List[str] = []
    sim_time_unit = "virtual seconds"
    tiers = {
        "quick": dict(runs=1000, chunk=100, wall_cap=120, det_sample=100),
        "thorough": dict(runs=10000, chunk=100, wall_cap=900, det_sample=1000),
    }
    run_watchdog_s = 600
    recursion_headroom = 900
    crash_rule = ""               # rule id charged when the code under test raises unexpectedly
    gc_every = 50                 # full garbage collection between runs, every so many runs
    prepared_state = None          # JSON-able; handed to the fresh interpreter of the self-test
    expected_probes: List[str] = []
    max_skipped_fraction = 0.02   # more runs than this in which nothing was judged: exit 2 instead of a vacuous pass

    def adopt(self, state) -> None:   # fresh interpreter re-uses what prepare() built
        pass

    def prepare(self, tier: str) -> None:      # parent process, before the pool forks
        pass

    def cleanup(self) -> None:
        pass

    def execute(self, tape: Tape, trace: List[str], stats: collections.Counter) -> Tuple[bool, int, float]:
        """Run one simulation.  Append human-readable events to trace, count fault kinds and
        reach probes in stats, raise Violation when an oracle rule fails.
        Returns (nontrivial, steps, simulated_time)."""
        raise NotImplementedError

    def extra_evidence(self) -> Dict[str, Any]:
        return {}


def _raised_in_code_under_test(e: BaseException) -> bool:
    """True if the innermost frame of the traceback lies in the tree under test."""
    tb = e.__traceback__
    last = None
    while tb is not None:
        last = tb
        tb = tb.tb_next
    if last is None:
        return False
    fn = os.path.realpath(last.tb_frame.f_code.co_filename)
    if fn.startswith(os.path.realpath(os.path.join(REPO_DIR, "src")) + os.sep):
        return True
    # a RecursionError surfaces wherever the limit strikes: look at the whole stack
    if isinstance(e, RecursionError):
        tb = e.__traceback__
        n = 0
        while tb is not None:
            if os.path.realpath(tb.tb_frame.f_code.co_filename).startswith(
                    os.path.realpath(os.path.join(REPO_DIR, "src")) + os.sep):
                n += 1
            tb = tb.tb_next
        return n > 20
    return False


def _stack_depth() -> int:
    f = sys._getframe()
    n = 0
    while f is not None:
        n += 1
        f = f.f_back
    return n


def run_one(sim: Simulator, tape: Tape) -> RunResult:
    trace: List[str] = []
    stats: collections.Counter = collections.Counter()
    # A RecursionError inside the code under test must strike at the same nesting depth whether
    # the run executes in a pool worker, in the parent or in a fresh interpreter: make the limit
    # relative to the depth of this frame.
    old_limit = sys.getrecursionlimit()
    sys.setrecursionlimit(_stack_depth() + sim.recursion_headroom)
    # The cyclic garbage collector must not fire inside a run: when it does depends on the allocation
    # history of the process, and collecting an abandoned async generator (cancelled call, dropped
    # response iterator) schedules an aclose() task on the running loop - one more source of
    # nondeterminism behind a seam.  Reference counting (deterministic) still frees what it can;
    # cycles are collected between runs.
    was_enabled = gc.isenabled()
    gc.disable()
    global _RUNS_SINCE_GC
    try:
        with warnings.catch_warnings():
            warnings.simplefilter("ignore")     # e.g. DeprecationWarning from a deprecated generated rpc
            return _run_one(sim, tape, trace, stats)
    finally:
        sys.setrecursionlimit(old_limit)
        _RUNS_SINCE_GC += 1
        if _RUNS_SINCE_GC >= sim.gc_every:
            _RUNS_SINCE_GC = 0
            gc.collect()
        if was_enabled:
            gc.enable()


_RUNS_SINCE_GC = 0


def _run_one(sim: Simulator, tape: Tape, trace, stats) -> RunResult:
    try:
        nontrivial, steps, sim_time = sim.execute(tape, trace, stats)
        res = RunResult("OK", trace=trace, stats=stats, nontrivial=nontrivial, steps=steps,
                        sim_time=sim_time)
    except Violation as v:
        trace.append(f"VIOLATION {v.rule} [{v.sig}] {v.message}")
        res = RunResult("VIOLATION", rule=v.rule, sig=v.sig, message=v.message, trace=trace,
                        stats=stats, nontrivial=True)
    except BaseException as e:  # noqa: BLE001 - the harness must never die silently
        if isinstance(e, (KeyboardInterrupt, SystemExit)):
            raise
        if sim.crash_rule and _raised_in_code_under_test(e):
            # the code under test raised at a point where the simulator expects no exception:
            # that is a verdict on the code (an operation the property covers blew up), not on
            # the harness - but it is classed apart so that it is easy to triage.
            msg = f"unexpected {type(e).__name__} from the code under test: {e}"[:600]
            trace.append(f"VIOLATION {sim.crash_rule} [unexpected-{type(e).__name__}] {msg}")
            res = RunResult("VIOLATION", rule=sim.crash_rule, sig=f"unexpected-{type(e).__name__}",
                            message=msg + " | " + "".join(traceback.format_tb(e.__traceback__)[-3:])[-700:],
                            trace=trace, stats=stats, nontrivial=True)
            res.tape = list(tape.log)
            return res
        res = RunResult("HARNESS", rule="HARNESS", sig=type(e).__name__,
                        message="".join(traceback.format_exception(type(e), e, e.__traceback__))[-4000:],
                        trace=trace, stats=stats)
    res.tape = list(tape.log)
    return res


# ---------------------------------------------------------------------------------------------
# worker side
# ---------------------------------------------------------------------------------------------

_SIM: Optional[Simulator] = None
_SAMPLE: set = set()


def _chunk(seed: int, start: int, count: int, n_samples: int) -> Dict[str, Any]:
    sim = _SIM
    assert sim is not None
    out_stats: collections.Counter = collections.Counter()
    digests = array.array("Q")
    seen = set()
    outcomes: collections.Counter = collections.Counter()
    steps = 0
    sim_time = 0.0
    viols: List[Dict[str, Any]] = []
    seen_classes = set()
    samples = []
    harness = None
    det: Dict[int, Tuple[str, str]] = {}
    for i in range(start, start + count):
        faulthandler.dump_traceback_later(sim.run_watchdog_s, exit=True)
        tape = Tape.search(seed, sim.property_id, i)
        res = run_one(sim, tape)
        faulthandler.cancel_dump_traceback_later()
        outcomes[res.outcome] += 1
        out_stats.update(res.stats)
        steps += res.steps
        sim_time += res.sim_time
        if res.outcome == "HARNESS":
            harness = dict(run=i, message=res.message, tape=res.tape)
            break
        if i in _SAMPLE:
            # determinism self-test, part 1: the same tape twice in this process
            again = run_one(sim, Tape.search(seed, sim.property_id, i))
            det[i] = (res.digest() + ":" + res.outcome, again.digest() + ":" + again.outcome)
        if res.nontrivial:
            d = int(res.digest()[:16], 16)
            if d not in seen:
                seen.add(d)
                digests.append(d)
        if res.outcome == "VIOLATION":
            key = (res.rule, res.sig)
            if key not in seen_classes and len(viols) < 8:
                seen_classes.add(key)
                viols.append(dict(run=i, rule=res.rule, sig=res.sig, message=res.message,
                                  tape=res.tape))
            out_stats[f"violation:{res.rule}:{res.sig}"] += 1
        if len(samples) < n_samples and res.nontrivial and res.outcome == "OK":
            samples.append(dict(run=i, trace=res.trace[:60], tape_len=len(res.tape)))
    return dict(n=sum(outcomes.values()), outcomes=dict(outcomes), stats=dict(out_stats),
                digests=digests.tobytes(), steps=steps, sim_time=sim_time, viols=viols,
                samples=samples, harness=harness, det=det)


# ---------------------------------------------------------------------------------------------
# known findings
# ---------------------------------------------------------------------------------------------

def load_known_findings(prop: str) -> List[Dict[str, Any]]:
    try:
        with open(KNOWN_FINDINGS) as f:
            data = json.load(f)
    except FileNotFoundError:
        return []
    return [e for e in data.get("findings", []) if e.get("property") == prop]


def match_known(entries: List[Dict[str, Any]], rule: str, sig: str, message: str) -> Optional[Dict[str, Any]]:
    for e in entries:
        if e.get("status") != "open":
            continue          # a fixed entry suppresses nothing
        if e.get("rule") != rule:
            continue
        if "sig" in e and not re.fullmatch(e["sig"], sig):
            continue
        if "message_re" in e and not re.search(e["message_re"], message):
            continue
        return e
    return None


# ---------------------------------------------------------------------------------------------
# replay files
# ---------------------------------------------------------------------------------------------

def labelled_tape(sim: Simulator, tape: List[int]) -> Tuple[RunResult, List[str]]:
    t = Tape.replay(tape, keep_labels=True)
    res = run_one(sim, t)
    return res, [f"{lab}={v}" for lab, v in zip(t.labels, t.log)]


def write_replay(sim: Simulator, seed: int, viol: Dict[str, Any], min_tape: List[int], tier: str = "quick") -> str:
    os.makedirs(REPLAY_DIR, exist_ok=True)
    res, labels = labelled_tape(sim, min_tape)
    path = os.path.join(REPLAY_DIR, f"{sim.property_id}-{viol['rule']}-{seed}-{viol['run']}.json")
    doc = dict(
        property=sim.property_id, simulator=sim.name, verif_seed=seed, tier=tier, run_index=viol["run"],
        rule=res.rule or viol["rule"], sig=res.sig or viol["sig"],
        rule_text=sim.rules.get(viol["rule"], ""),
        message=res.message or viol["message"],
        original_tape=viol["tape"], minimised_tape=min_tape,
        decisions=labels, trace=res.trace, trace_sha256=res.digest(),
        repo=REPO_DIR,
        replay_cmd=f"./check {sim.property_id} --replay {path}",
    )
    with open(path, "w") as f:
        json.dump(doc, f, indent=1)
    return path


def do_replay(sim: Simulator, path: str) -> int:
    with open(path) as f:
        doc = json.load(f)
    sim.verif_seed = doc.get("verif_seed", 0)       # what prepare() builds may depend on seed and tier
    sim.prepare(doc.get("tier", "quick"))
    try:
        res = run_one(sim, Tape.replay(doc["minimised_tape"]))
    finally:
        sim.cleanup()
    for line in res.trace:
        print("  " + line)
    if res.outcome == "HARNESS":
        print(res.message)
        return 2
    if res.outcome == "VIOLATION":
        same = (res.rule == doc["rule"] and res.sig == doc["sig"])
        dm = res.digest() == doc["trace_sha256"]
        print(f"replayed: rule={res.rule} sig={res.sig} same_class={same} digest_match={dm}")
        known = match_known(load_known_findings(sim.property_id), res.rule, res.sig, res.message)
        if known is not None:
            print(f"KNOWN-FINDING: property={sim.property_id} {known['what']}")
        print(f"VIOLATION property={sim.property_id} replay={path}")
        return 1
    print("REPLAY-CLEAN: the recorded tape no longer violates the property")
    return 0


# ---------------------------------------------------------------------------------------------
# determinism self-test
# ---------------------------------------------------------------------------------------------

def digests_of(sim: Simulator, seed: int, indices: List[int]) -> List[str]:
    out = []
    for i in indices:
        res = run_one(sim, Tape.search(seed, sim.property_id, i))
        out.append(res.digest() + ":" + res.outcome)
    return out


def start_fresh_interpreter(sim: Simulator, seed: int, indices: List[int]):
    """Determinism self-test, part 2: the sampled tapes once more in a fresh interpreter under
    another PYTHONHASHSEED, serially (i.e. another worker count), concurrently with the search."""
    env = dict(os.environ)
    env["PYTHONHASHSEED"] = "1234567"
    env["VERIF_REEXEC"] = "1"
    env["VERIF_PREPARED"] = json.dumps(getattr(sim, "prepared_state", None))
    cmd = [sys.executable, os.path.join(VERIF_DIR, "check"), sim.property_id, "--digests",
           ",".join(map(str, indices)), "--seed", str(seed)]
    return subprocess.Popen(cmd, env=env, stdout=subprocess.PIPE, stderr=subprocess.PIPE, text=True)


def finish_determinism(proc, indices: List[int], det: Dict[int, Tuple[str, str]]) -> Dict[str, Any]:
    try:
        out, err = proc.communicate(timeout=3600)
    except subprocess.TimeoutExpired:
        proc.kill()
        return dict(ok=False, error="fresh interpreter timed out")
    if proc.returncode != 0:
        return dict(ok=False, error=f"fresh interpreter failed: {err[-2000:]}")
    c = json.loads(out.strip().splitlines()[-1])
    fresh = dict(zip(indices, c))
    compared = [i for i in indices if i in det]
    mism = [i for i in compared if not (det[i][0] == det[i][1] == fresh[i])]
    return dict(ok=not mism, sampled=len(compared), mismatching_runs=mism[:10],
                modes=["same tape twice in one worker process",
                       "fresh interpreter, PYTHONHASHSEED=1234567, serial (other worker count)"])


# ---------------------------------------------------------------------------------------------
# main search
# ---------------------------------------------------------------------------------------------

class Distinct:
    def __init__(self, planned: int):
        self.exact = planned <= 4_000_000
        self.s = set()
        if not self.exact:
            self.bits = 30
            self.bm = bytearray(1 << (self.bits - 3))
            self.count = 0

    def add_bytes(self, raw: bytes) -> None:
        arr = array.array("Q")
        arr.frombytes(raw)
        if self.exact:
            self.s.update(arr)
        else:
            bm = self.bm
            sh = 64 - self.bits
            for d in arr:
                k = d >> sh
                m = 1 << (k & 7)
                if not bm[k >> 3] & m:
                    bm[k >> 3] |= m
                    self.count += 1

    def value(self) -> int:
        return len(self.s) if self.exact else self.count

    def how(self) -> str:
        return ("exact set of 64-bit trace digests" if self.exact else
                f"lower bound: {self.bits}-bit bitmap over trace digests (collisions undercount)")


def search(sim: Simulator, tier: str, seed: int, runs: Optional[int], workers: int,
           wall_cap: Optional[float]) -> int:
    global _SIM
    cfg = dict(sim.tiers[tier])
    if runs is not None:
        cfg["runs"] = runs
    if wall_cap is not None:
        cfg["wall_cap"] = wall_cap
    t0 = time.time()
    print(f"VERIF_SEED={seed} property={sim.property_id} simulator={sim.name} tier={tier} "
          f"runs={cfg['runs']} workers={workers} repo={REPO_DIR}", flush=True)
    sim.verif_seed = seed
    sim.prepare(tier)
    try:
        return _search(sim, tier, seed, cfg, workers, t0)
    finally:
        sim.cleanup()


def _search(sim: Simulator, tier: str, seed: int, cfg: Dict[str, Any], workers: int, t0: float) -> int:
    global _SIM
    _SIM = sim
    total = cfg["runs"]
    chunk = cfg["chunk"]
    distinct = Distinct(total)
    outcomes: collections.Counter = collections.Counter()
    stats: collections.Counter = collections.Counter()
    steps = 0
    sim_time = 0.0
    viols: Dict[Tuple[str, str], Dict[str, Any]] = {}
    samples: List[Any] = []
    harness = None
    capped = False

    # warm class-level caches before forking (and before any traced run)
    run_one(sim, Tape.search(seed, sim.property_id, 0))

    global _SAMPLE
    k = max(1, min(cfg.get("det_sample", 100), total))
    step = max(1, total // k)
    sample_idx = list(range(0, total, step))[:k]
    _SAMPLE = set(sample_idx)
    det_all: Dict[int, Tuple[str, str]] = {}
    fresh = start_fresh_interpreter(sim, seed, sample_idx)

    ctx = multiprocessing.get_context("fork")
    starts = list(range(0, total, chunk))
    nxt = 0
    pending = set()
    try:
        with cf.ProcessPoolExecutor(max_workers=workers, mp_context=ctx) as ex:
            while nxt < len(starts) or pending:
                while nxt < len(starts) and len(pending) < workers * 3 and not capped and harness is None:
                    s = starts[nxt]
                    nxt += 1
                    pending.add(ex.submit(_chunk, seed, s, min(chunk, total - s), 2 if s == 0 else 0))
                if not pending:
                    break
                done, pending = cf.wait(pending, timeout=5, return_when=cf.FIRST_COMPLETED)
                for fut in done:
                    r = fut.result()
                    outcomes.update(r["outcomes"])
                    stats.update(r["stats"])
                    steps += r["steps"]
                    sim_time += r["sim_time"]
                    distinct.add_bytes(r["digests"])
                    for v in r["viols"]:
                        viols.setdefault((v["rule"], v["sig"]), v)
                    samples.extend(r["samples"])
                    det_all.update({int(a): tuple(b) for a, b in r["det"].items()})
                    if r["harness"] and harness is None:
                        harness = r["harness"]
                if time.time() - t0 > cfg["wall_cap"] and not capped:
                    capped = True
                    print(f"wall cap {cfg['wall_cap']}s reached after {sum(outcomes.values())} runs; "
                          f"not submitting more", flush=True)
                if capped or harness is not None:
                    nxt = len(starts)
    except cf.process.BrokenProcessPool as e:
        fresh.kill()
        print(f"HARNESS: worker died (watchdog or crash): {e}", flush=True)
        return 2

    n = sum(outcomes.values())
    if harness is not None:
        fresh.kill()
        print(f"HARNESS failure in run {harness['run']}:\n{harness['message']}", flush=True)
        print(f"tape={harness['tape']}")
        return 2

    search_wall = time.time() - t0

    # determinism self-test on a sample of the tapes just explored
    det = finish_determinism(fresh, sample_idx, det_all)
    if not det["ok"]:
        print(f"HARNESS: determinism self-test failed: {det}", flush=True)
        return 2

    # violations: minimise, write replay, classify against known findings
    known = load_known_findings(sim.property_id)
    exit_code = 0
    reported = []
    min_spent = 0.0
    for (rule, sig), v in sorted(viols.items()):
        def fails(c, rule=rule, sig=sig):
            r = run_one(sim, Tape.replay(c))
            return r.outcome == "VIOLATION" and r.rule == rule and r.sig == sig
        t1 = time.time()
        if not fails(v["tape"]):
            print(f"HARNESS: violation {rule} [{sig}] of run {v['run']} does not reproduce when its tape is "
                  f"re-executed in the parent process (state leaked between runs?): {v['message'][:300]}", flush=True)
            return 2
        tb = max(0.0, min(20.0, 90.0 - min_spent))
        mt = minimise(v["tape"], fails, budget=300, time_budget=tb) if tb > 0 else v["tape"]
        min_spent += time.time() - t1
        path = write_replay(sim, seed, v, mt, tier)
        with open(path) as f:
            doc = json.load(f)
        kf = match_known(known, rule, sig, doc["message"])
        count = stats.get(f"violation:{rule}:{sig}", 0)
        if kf is not None:
            print(f"KNOWN-FINDING: property={sim.property_id} {kf['what']} "
                  f"[rule={rule} sig={sig} runs={count} replay={path}]", flush=True)
        else:
            exit_code = 1
            print(f"rule {rule} [{sig}] violated in {count} runs; minimised tape of "
                  f"{len(mt)} decisions ({time.time() - t1:.1f}s): {doc['message']}", flush=True)
            print(f"VIOLATION property={sim.property_id} replay={path}", flush=True)
        reported.append(dict(rule=rule, sig=sig, runs=count, replay=path,
                             known_finding=bool(kf), message=doc["message"][:500]))

    wall = time.time() - t0
    fault_counts = {k: v for k, v in stats.items() if k.startswith("fault:")}
    probes = {k: v for k, v in stats.items() if k.startswith("probe:")}
    other = {k: v for k, v in stats.items() if not k.startswith(("fault:", "probe:", "violation:"))}
    coverage = dict(
        evaluations=n,
        distinct_nontrivial=distinct.value(),
        distinct_how=distinct.how(),
        rule=(sim.generation_rule + " NON-TRIVIAL: " + sim.nontrivial_rule +
              " DISTINCT: different SHA-256 of the complete event trace."),
        samples=samples[:3] or [dict(note="no non-trivial OK run in the first chunk")],
        runs_per_hour=int(n / max(search_wall, 1e-6) * 3600),
        simulated_time=dict(total=round(sim_time, 6), unit=sim.sim_time_unit),
        loop_steps=steps,
        outcomes=dict(outcomes),
        faults_fired=fault_counts,
        reach_probes=probes,
        counters=other,
        oracle_rules=sim.rules,
        components=dict(real=sim.components_real, stub=sim.components_stub),
        determinism_selftest=det,
        wall_capped=capped,
        planned_runs=cfg["runs"],
        violation_classes=reported,
        exhaustive=False,
    )
    coverage.update(sim.extra_evidence())
    ev = dict(property_id=sim.property_id, tier=tier, seed=seed, level=sim.level,
              coverage=coverage, assumptions=sim.assumptions, wall_s=round(wall, 2),
              violations=sum(1 for r in reported if not r["known_finding"]))
    os.makedirs(EVIDENCE_DIR, exist_ok=True)
    with open(os.path.join(EVIDENCE_DIR, f"{sim.property_id}.json"), "w") as f:
        json.dump(ev, f, indent=1, sort_keys=True, default=str)
    print(f"{sim.property_id}: runs={n} distinct_nontrivial={distinct.value()} "
          f"violation_classes={len(reported)} wall={wall:.1f}s "
          f"runs/h={coverage['runs_per_hour']} exit={exit_code}", flush=True)
    zero = [k for k in getattr(sim, "expected_probes", []) if not stats.get(k)]
    if zero:
        print(f"note: reach probes stuck at zero: {zero}", flush=True)
    skipped = {k: v for k, v in stats.items() if k.startswith("skipped:")}
    if skipped:
        print(f"note: runs skipped by the simulator (nothing judged in them): {skipped}", flush=True)
    if exit_code == 0 and n and sum(skipped.values()) > sim.max_skipped_fraction * n:
        # a pass in which the simulator judged (almost) nothing is no pass: the workload no longer reaches
        # the code the property is about - reported as a harness outcome, not as a verdict
        print(f"HARNESS: {sum(skipped.values())} of {n} runs were skipped (limit "
              f"{sim.max_skipped_fraction:.0%}): the check would pass vacuously", flush=True)
        return 2
    return exit_code


# ---------------------------------------------------------------------------------------------
# CLI
# ---------------------------------------------------------------------------------------------

def main(registry: Dict[str, Any], argv: Optional[List[str]] = None) -> int:
    ap = argparse.ArgumentParser(prog="check")
    ap.add_argument("property")
    ap.add_argument("--tier", default=os.environ.get("VERIF_TIER", "quick"), choices=["quick", "thorough"])
    ap.add_argument("--seed", type=int, default=int(os.environ.get("VERIF_SEED", "0")))
    ap.add_argument("--runs", type=int)
    ap.add_argument("--workers", type=int, default=int(os.environ.get("VERIF_WORKERS", os.cpu_count() or 4)))
    ap.add_argument("--wall-cap", type=float)
    ap.add_argument("--replay")
    ap.add_argument("--digests", help="internal: print trace digests of these run indices")
    ap.add_argument("--one", type=int, help="run a single run index verbosely")
    args = ap.parse_args(argv)

    if os.environ.get("VERIF_REEXEC") != "1":
        env = dict(os.environ)
        env["VERIF_REEXEC"] = "1"
        env["PYTHONHASHSEED"] = "0"
        env["PYTHONDONTWRITEBYTECODE"] = "1"
        # interpreter switches inherited from the caller must not decide a verdict
        for k in ("PYTHONWARNINGS", "PYTHONDEVMODE", "PYTHONASYNCIODEBUG", "PYTHONTRACEMALLOC", "PYTHONOPTIMIZE",
                  "PYTHONINSPECT", "PYTHONPROFILEIMPORTTIME"):
            env.pop(k, None)
        os.execve(sys.executable, [sys.executable, os.path.join(VERIF_DIR, "check")] + (argv or sys.argv[1:]), env)

    if args.property not in registry:
        print(f"unknown property {args.property}; known: {sorted(registry)}")
        return 2
    sim: Simulator = registry[args.property]()
    try:
        if args.digests is not None:
            pre = os.environ.get("VERIF_PREPARED")
            if pre and json.loads(pre) is not None:
                sim.adopt(json.loads(pre))
            else:
                sim.prepare("quick")
            try:
                idx = [int(x) for x in args.digests.split(",") if x]
                print(json.dumps(digests_of(sim, args.seed, idx)))
            finally:
                if not (pre and json.loads(pre) is not None):
                    sim.cleanup()
            return 0
        if args.replay:
            return do_replay(sim, args.replay)
        if args.one is not None:
            sim.verif_seed = args.seed
            sim.prepare(args.tier)
            try:
                t = Tape.search(args.seed, sim.property_id, args.one)
                res = run_one(sim, t)
                for line in res.trace:
                    print("  " + line)
                print(res.outcome, res.rule, res.sig, res.message)
                print("tape:", res.tape)
                print("stats:", dict(res.stats))
            finally:
                sim.cleanup()
            return 0
        return search(sim, args.tier, args.seed, args.runs, args.workers, args.wall_cap)
    except SystemExit:
        raise
    except BaseException:  # noqa: BLE001
        traceback.print_exc()
        return 2
