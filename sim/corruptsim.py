"""corruptsim — C17: malformed or truncated input is rejected or isolated, never mis-decoded.

Storage-fault mode of the stream simulator: a valid encoding produced by a writer (betterproto or
the reference implementation) is stored; a fault sequence mutates the stored bytes; a reader
decodes it through each entry point (parse, FromString, load to EOF, load SIZE_DELIMITED).
One actor, no scheduler - what is simulated is the storage (bit rot, short files, foreign writers).
"""
from __future__ import annotations

import hashlib
import io
import signal
from datetime import datetime, timedelta
from typing import Any, List, Optional, Tuple

from . import repo  # noqa: F401
import betterproto
from . import schemas, wire
from .engine import Simulator, Violation
from .refpeer import RefSchema, ref_accepts
from .valgen import Gen, class_info, short

SD = betterproto.SIZE_DELIMITED

RULES = {
    "C17.M1": "for every byte string, decoding terminates",
    "C17.M2": "if decoding returns, every field holds a value of its declared Python type and the message can be encoded again",
    "C17.M3": "a proper prefix that cuts a field in the middle, an invalid wire type and field number 0 are rejected "
              "rather than decoded into a shortened or partial message",
    "C17.M4": "an occurrence of a known field number with a wire type that does not fit the declared type is kept as "
              "an unknown field, and neither it nor a (proto2) group ever alters the value of a known field",
}

_VARINT_T = {"enum", "bool", "int32", "int64", "uint32", "uint64", "sint32", "sint64"}
_I32_T = {"float", "fixed32", "sfixed32"}
_I64_T = {"double", "fixed64", "sfixed64"}


def declared_wire_types(fi) -> Tuple[int, ...]:
    """Wire types that fit the declared type of field fi (packed and unpacked for repeated scalars)."""
    if fi.is_map or fi.proto_type in ("string", "bytes", "message"):
        return (wire.LEN,)
    if fi.proto_type in _VARINT_T:
        base = wire.VARINT
    elif fi.proto_type in _I32_T:
        base = wire.I32
    else:
        base = wire.I64
    return (base, wire.LEN) if fi.repeated else (base,)


_PY = {"string": str, "bytes": bytes, "bool": bool, "float": float, "double": float}


def _scalar_ok(pt: str, v, enum_cls) -> bool:
    if pt == "enum":
        return isinstance(v, enum_cls)
    if pt == "bool":
        return type(v) is bool
    if pt in ("float", "double"):
        return isinstance(v, float)
    if pt == "string":
        return isinstance(v, str)
    if pt == "bytes":
        return isinstance(v, bytes)
    return isinstance(v, int) and not isinstance(v, bool)       # a subclass of int is an int; a bool is not


def check_types(m, cls, path: str = "", depth: int = 0) -> Optional[str]:
    """None if every field of m (recursively) holds a value of its declared Python type."""
    if not isinstance(m, cls):
        return f"{path or '<root>'}: {type(m).__name__} instead of {cls.__name__}"
    if depth > 40:
        return None
    ci = class_info(cls)
    for fi in ci.fields:
        try:
            v = getattr(m, fi.name)
        except AttributeError:
            if fi.group:
                continue
            return f"{path}{fi.name}: AttributeError on a non-oneof field"
        p = f"{path}{fi.name}"
        if fi.is_map:
            if not isinstance(v, dict):
                return f"{p}: {type(v).__name__} instead of dict"
            kt, vt = fi.map_types
            for k, x in v.items():
                if not _scalar_ok(kt, k, None):
                    return f"{p} key {k!r}: {type(k).__name__} for {kt}"
                if vt == "message":
                    why = check_types(x, fi.map_value_cls, p + "[].", depth + 1)
                    if why:
                        return why
                elif not _scalar_ok(vt, x, fi.map_value_cls):
                    return f"{p} value {x!r}: {type(x).__name__} for {vt}"
            continue
        items = v if fi.repeated else [v]
        if fi.repeated and not isinstance(v, list):
            return f"{p}: {type(v).__name__} instead of list"
        for x in items:
            if x is None:
                if (fi.optional or fi.wraps) and not fi.repeated:
                    continue
                return f"{p}: None in a field that is neither optional nor a wrapper"
            if fi.proto_type == "message":
                if fi.wraps:
                    if not _scalar_ok(fi.wraps, x, None):
                        return f"{p}: {type(x).__name__} ({x!r}) in a {fi.wraps} wrapper field"
                elif fi.py_cls is datetime:
                    if not isinstance(x, datetime):
                        return f"{p}: {type(x).__name__} instead of datetime"
                elif fi.py_cls is timedelta:
                    if not isinstance(x, timedelta):
                        return f"{p}: {type(x).__name__} instead of timedelta"
                else:
                    why = check_types(x, fi.py_cls, p + ".", depth + 1)
                    if why:
                        return why
            elif not _scalar_ok(fi.proto_type, x, fi.py_cls):
                return f"{p}: {type(x).__name__} ({x!r:.60}) in a field declared {fi.proto_type}"
    return None


def structure(buf: bytes, cls, base: int = 0, end: Optional[int] = None, depth: int = 0,
              tags: Optional[list] = None, lens: Optional[list] = None, tails: Optional[list] = None):
    """Offsets of every tag byte and every length byte at every nesting depth reachable through
    fields the schema declares as messages / maps (independent parser)."""
    if tags is None:
        tags, lens = [], []
    if tails is None:
        tails = []
    try:
        fields = wire.parse_fields(buf, base, end)
    except wire.WireError:
        return tags, lens
    ci = class_info(cls) if cls is not None else None
    for f in fields:
        tags.extend(range(f.start, f.tag_end))
        if f.wt == wire.LEN:
            lens.extend(range(f.tag_end, f.len_end))
            fi = ci.by_number.get(f.num) if ci else None
            if fi is not None and depth < 6:
                sub = None
                if fi.is_map:
                    sub = "map"
                elif fi.proto_type == "message":
                    sub = fi.py_cls if (isinstance(fi.py_cls, type) and issubclass(fi.py_cls, betterproto.Message)) else "wkt"
                if sub is None and fi.repeated and fi.proto_type not in ("string", "bytes"):
                    sub = "packed"
                if sub is not None and f.end > f.len_end:
                    tails.append(f.end - 1)      # last payload byte of a structured field
                if sub is not None and sub != "packed":
                    structure(buf, sub if isinstance(sub, type) else None, f.len_end, f.end, depth + 1, tags, lens, tails)
    return tags, lens



def structure3(buf: bytes, cls):
    tags, lens, tails = [], [], []
    structure(buf, cls, tags=tags, lens=lens, tails=tails)
    return tags, lens, tails


ENFORCED = ("truncated", "length past the end", "unterminated group", "invalid wire type", "field number 0",
            "truncated inside group")


def _packed_problem(payload: bytes, proto_type: str) -> Optional[str]:
    if proto_type in _I32_T:
        return "packed fixed32 payload is not a multiple of 4 bytes" if len(payload) % 4 else None
    if proto_type in _I64_T:
        return "packed fixed64 payload is not a multiple of 8 bytes" if len(payload) % 8 else None
    pos = 0
    while pos < len(payload):
        try:
            _, pos = wire.dec_varint(payload, pos)
        except wire.WireError as e:
            return f"packed element: {e}" if str(e).startswith("truncated") else None
    return None


def _msg_problem(payload: bytes, cls, depth: int = 0):
    """A structural problem (cut field, wire type 6/7, field number 0) anywhere inside the payload of a
    field the schema declares as a message / map entry / packed list - judged by the independent parser.
    Returns None, "?" (malformed in a way that is not enforced) or (reason, innermost occurrence): the bytes
    of the innermost well-delimited field whose own payload is the malformed one (None: this payload)."""
    try:
        fields = wire.parse_fields(payload)
    except wire.WireError as e:
        return (str(e), None) if str(e).startswith(ENFORCED) else "?"
    if cls is None or depth > 8:
        return None
    ci = class_info(cls)
    for f in fields:
        fi = ci.by_number.get(f.num)
        if fi is None or f.wt != wire.LEN or wire.LEN not in declared_wire_types(fi):
            continue
        r = _field_problem(f.value, fi, depth + 1)
        if r == "?":
            return r
        if r:
            return (r[0], r[1] if r[1] is not None else payload[f.start:f.end])
    return None


def _field_problem(payload: bytes, fi, depth: int):
    if fi.is_map:
        try:
            entry = wire.parse_fields(payload)
        except wire.WireError as e:
            return (f"map entry: {e}", None) if str(e).startswith(ENFORCED) else "?"
        kt, vt = fi.map_types
        if vt == "message":
            for f in entry:
                if f.num == 2 and f.wt == wire.LEN:
                    r = _msg_problem(f.value, fi.map_value_cls, depth + 1)
                    if r == "?":
                        return r
                    if r:
                        return (r[0], r[1] if r[1] is not None else payload[f.start:f.end])
        return None
    if fi.proto_type == "message":
        sub = fi.py_cls if (isinstance(fi.py_cls, type) and issubclass(fi.py_cls, betterproto.Message) and not fi.wraps) else None
        return _msg_problem(payload, sub, depth)
    if fi.repeated and fi.proto_type not in ("string", "bytes"):
        why = _packed_problem(payload, fi.proto_type)
        return (why, None) if why else None
    return None


def deep_problem(buf: bytes, cls) -> Optional[Tuple[str, bytes]]:
    """(reason, bytes of the INNERMOST well-delimited occurrence whose own payload is malformed) for the first
    top-level field with such a payload; None if there is none or the top level is already malformed.  The
    innermost occurrence is what a decoder that does not reject must keep verbatim: it cannot be parsed, so it
    cannot have been re-ordered or normalised either."""
    try:
        top = wire.parse_fields(buf)
    except wire.WireError:
        return None
    ci = class_info(cls)
    for f in top:
        fi = ci.by_number.get(f.num)
        if fi is None or f.wt != wire.LEN or wire.LEN not in declared_wire_types(fi):
            continue
        r = _field_problem(f.value, fi, 1)
        if r == "?":
            return None
        if r:
            return r[0], (r[1] if r[1] is not None else buf[f.start:f.end])
    return None


_WT_OF = {}
for _t in _VARINT_T:
    _WT_OF[_t] = wire.VARINT
for _t in _I32_T:
    _WT_OF[_t] = wire.I32
for _t in _I64_T:
    _WT_OF[_t] = wire.I64


def _inner_mismatch(fi, num: int, wt: int) -> bool:
    """True if, inside the payload of field fi, inner field `num` is KNOWN and `wt` cannot carry its type."""
    def fits_type(pt: str) -> int:
        return _WT_OF.get(pt, wire.LEN)
    if fi.is_map:
        if num not in (1, 2):
            return False
        return wt != fits_type(fi.map_types[num - 1])
    if fi.wraps:
        return num == 1 and wt != fits_type(fi.wraps)
    if fi.py_cls in (datetime, timedelta):
        return num in (1, 2) and wt != wire.VARINT
    if isinstance(fi.py_cls, type) and issubclass(fi.py_cls, betterproto.Message):
        f2 = class_info(fi.py_cls).by_number.get(num)
        return f2 is not None and wt not in declared_wire_types(f2)
    return False


def _canon(buf: bytes):
    """Order-insensitive rendering of a well-formed field sequence (groups recursively)."""
    out = []
    for f in wire.parse_fields(buf):
        if f.wt == wire.SGROUP:
            inner = buf[f.tag_end:f.end - len(wire.tag(f.num, wire.EGROUP))]
            out.append((f.num, f.wt, _canon(inner)))
        else:
            out.append((f.num, f.wt, bytes(buf[f.tag_end:f.end])))
    return tuple(sorted(out, key=repr))


def kept_as_unknown(out: bytes, occ: bytes) -> bool:
    """True if the re-encoding `out` still carries the occurrence `occ` at top level - byte for byte, or (for
    a group, whose content an unknown-field store may keep parsed) field for field in any inner order."""
    if occ in out:
        return True
    try:
        want = _canon(occ)
        have = _canon(out)
    except (wire.WireError, IndexError):
        return False
    return all(w in have for w in want)


def struct_eq(x, y, depth: int = 0) -> bool:
    """The harness's own equality of decoded values: declared fields, recursively; NaN equals NaN; unknown
    fields are NOT compared (a decoder may keep them on either side of ==)."""
    if isinstance(x, betterproto.Message) and isinstance(y, betterproto.Message):
        if type(x) is not type(y) or depth > 40:
            return type(x) is type(y)
        for fi in class_info(type(x)).fields:
            try:
                a = getattr(x, fi.name)
            except AttributeError:
                a = AttributeError
            try:
                b = getattr(y, fi.name)
            except AttributeError:
                b = AttributeError
            if a is AttributeError or b is AttributeError:
                if a is not b:
                    return False
                continue
            if not struct_eq(a, b, depth + 1):
                return False
        return True
    if isinstance(x, float) and isinstance(y, float):
        return x == y or (x != x and y != y)
    if isinstance(x, list) and isinstance(y, list):
        return len(x) == len(y) and all(struct_eq(a, b, depth + 1) for a, b in zip(x, y))
    if isinstance(x, dict) and isinstance(y, dict):
        return x.keys() == y.keys() and all(struct_eq(v, y[k], depth + 1) for k, v in x.items())
    return x == y


def top_level_malformed(buf: bytes) -> Optional[str]:
    try:
        wire.parse_fields(buf)
        return None
    except wire.WireError as e:
        s = str(e)
        return s if s.startswith(ENFORCED) else None


CPU_LIMIT_S = 5.0


class _Timeout(BaseException):
    pass


def _alarm(signum, frame):
    raise _Timeout()


_NEXT_FRAME = b"\x0c\x08\x96\x01\x12\x07trailer"      # a well-formed delimited frame (12 bytes of payload)


class _ShortReads:
    """SupportsRead[bytes] that returns at most `chunk` bytes per call, fewer than asked, although more follow."""

    def __init__(self, data: bytes, chunk: int):
        self.s = io.BytesIO(data)
        self.chunk = chunk

    def read(self, n: int = -1) -> bytes:
        if n is None or n < 0 or n > self.chunk:
            n = self.chunk
        return self.s.read(n)


class _Run:
    def __init__(self, sim, tape, trace, stats):
        self.sim = sim
        self.tape = tape
        self.trace = trace
        self.stats = stats
        self.evals = 0
        self.h = hashlib.sha1()
        self.rot = 0
        self.primary = 0
        self.short_chunk = 1
        self.current = b""

    # -- decoding through the entry points -------------------------------------------------------
    def _decode_one(self, cls, data: bytes, entry: int):
        try:
            if entry == 0:
                return "ok", cls().parse(data)
            if entry == 1:
                return "ok", cls.FromString(data)
            if entry == 2:
                return "ok", cls().load(io.BytesIO(data))
            if entry == 4:
                # a stream that hands out at most `short_chunk` bytes per read() although more follow (a pipe, a
                # socket file): a loader may give up on it (raising is within the statement) or cope - but what
                # it returns must still be a well-typed message
                return "ok", cls().load(_ShortReads(data, self.short_chunk))
            # the frame is followed by another one on the stream: a field of THIS frame that runs past the frame's
            # end must not be satisfied from the bytes of the next frame
            s = io.BytesIO(wire.enc_varint(len(data)) + data + _NEXT_FRAME)
            m = cls().load(s, SD)
            return "ok", m
        except _Timeout:
            raise
        except Exception as e:  # noqa: BLE001
            return "raise", e

    ENTRY_NAMES = ("parse", "FromString", "load", "load(SIZE_DELIMITED)", "load(short reads)")

    def decode(self, cls, data: bytes, kind: str):
        """parse, and for every third input one rotating other entry point.  Returns [(entry name, 'ok' |
        'raise', message | exception)].  Each entry point is judged on its own by M1-M4: the statement says
        what any decode of a byte string does, not that two decoders agree (agreement is recorded)."""
        self.evals += 1
        self.current = data
        signal.setitimer(signal.ITIMER_VIRTUAL, CPU_LIMIT_S)
        # every run has a PRIMARY entry point (drawn once) that sees the whole fault space of the run, so that a
        # defect confined to one of them (the sized loader, say) meets every fault kind in a quarter of the runs;
        # every third input also goes through one of the other three, in rotation
        first = self.primary
        st, got = self._decode_one(cls, data, first)
        results = [(self.ENTRY_NAMES[first], st, got)]
        self.rot = (self.rot + 1) % 12
        if self.rot % 3 == 0:
            entry = [e for e in range(5) if e != first][self.rot // 3]
            st2, got2 = self._decode_one(cls, data, entry)
            results.append((self.ENTRY_NAMES[entry], st2, got2))
            if st != st2:
                self.stats["recorded:entry-points-disagree-on-accept/reject"] += 1
        for _, s_, g_ in results:
            if s_ != "ok" and isinstance(g_, MemoryError):
                self.stats["recorded:decode-raised-MemoryError"] += 1
        # reference agreement: recorded, not enforced
        ra = ref_accepts(self.sim.ref.pb_class(cls), data) if cls in self.sim.ref._msgs else None
        if ra is not None:
            self.stats[f"ref:{'bp-accepts' if st == 'ok' else 'bp-rejects'}/{'ref-accepts' if ra else 'ref-rejects'}"] += 1
        self.h.update(kind.encode() + data[:64] + (b"ok" if st == "ok" else type(got).__name__.encode()))
        return results

    def judge(self, cls, data: bytes, kind: str, expect: str, base=None, occ: bytes = b"", detail: str = ""):
        """expect: 'any' | 'raise' | 'same' (known fields as in `base`) | 'same+verbatim' | 'same-or-raise'."""
        results = self.decode(cls, data, kind)
        bad = top_level_malformed(data)
        dp = None
        dp_done = False
        for entry, st, got in results:
            via = f" via {entry}"
            if st == "ok":
                if expect == "raise" or bad:
                    raise Violation("C17.M3", f"accepted:{kind}",
                                    f"[{kind}]{via} {detail} input {data.hex()[:200]} ({cls.__name__}) "
                                    f"{'is malformed at top level (' + bad + ')' if bad else 'must be rejected'} "
                                    f"but decoded to {short(got, 160)}")
                why = check_types(got, cls)
                if why:
                    raise Violation("C17.M2", f"wrong-type:{kind}",
                                    f"[{kind}]{via} {detail} input {data.hex()[:200]} ({cls.__name__}) decoded to a message "
                                    f"with {why}")
                try:
                    out = bytes(got)
                except Exception as e:  # noqa: BLE001
                    raise Violation("C17.M2", f"cannot-reencode:{kind}",
                                    f"[{kind}]{via} {detail} input {data.hex()[:200]} ({cls.__name__}) decoded, but bytes() "
                                    f"raises {type(e).__name__}: {e}")
                if not dp_done:
                    dp, dp_done = deep_problem(data, cls), True
                if dp is not None and dp[1] not in out:
                    raise Violation("C17.M3", f"accepted-nested:{kind}",
                                    f"[{kind}]{via} {detail} input {data.hex()[:200]} ({cls.__name__}): the payload of the "
                                    f"well-delimited field {dp[1].hex()[:80]} is itself cut / malformed ({dp[0]}), yet it was "
                                    f"decoded into {short(got, 140)} instead of being rejected or kept verbatim")
                if expect.startswith("same"):
                    try:
                        eq = struct_eq(got, base)
                    except Exception as e:  # noqa: BLE001
                        raise Violation("C17.M4", f"compare-raised:{kind}", f"{type(e).__name__}: {e}")
                    if not eq:
                        raise Violation("C17.M4", f"known-field-altered:{kind}",
                                        f"[{kind}]{via} {detail} inserted {occ.hex()} into a valid {cls.__name__} encoding: "
                                        f"known fields changed: {short(got, 140)} vs {short(base, 140)}")
                    if expect == "same-or-raise" and not kept_as_unknown(out, occ):
                        self.stats["recorded:group-accepted-but-not-re-emitted"] += 1
                    if expect == "same+verbatim" and not kept_as_unknown(out, occ):
                        raise Violation("C17.M4", f"not-kept-as-unknown:{kind}",
                                        f"[{kind}]{via} {detail} occurrence {occ.hex()} is not re-emitted by "
                                        f"bytes(result) = {out.hex()[:160]}")
            else:
                if entry == "load(short reads)":
                    self.stats["recorded:short-read-stream-rejected"] += 1
                    continue               # giving up on such a stream is allowed for any input
                if expect in ("same", "same+verbatim"):
                    raise Violation("C17.M4", f"rejected:{kind}",
                                    f"[{kind}]{via} {detail} inserted {occ.hex()} into a valid {cls.__name__} encoding: decoding "
                                    f"raised {type(got).__name__}: {got} instead of keeping it as an unknown field")
                if expect == "same-or-raise":
                    self.stats["recorded:unknown-number-group-rejected"] += 1
        return results[0][1]

    # -- crafting ------------------------------------------------------------------------------
    def wellformed_payload(self, wt: int) -> bytes:
        t = self.tape
        if wt == wire.VARINT:
            return wire.enc_varint(t.choice([0, 1, 5, 127, 128, 300, 2**32, 2**63, 2**64 - 1], "sub-varint"))
        if wt == wire.I32:
            return t.choice([b"\x00\x00\x00\x00", b"\x01\x00\x00\x00", b"\x00\x00\x80\x3f", b"\xff\xff\xff\xff"], "sub-i32")
        if wt == wire.I64:
            return t.choice([b"\x00" * 8, b"\x01" + b"\x00" * 7, b"\x00" * 6 + b"\xf0\x3f", b"\xff" * 8], "sub-i64")
        body = t.choice([b"", b"\x01", b"\x01\x02", b"\x08\x07", b"\x08\x07\x12\x01a", b"abc", b"\xff\xfe",
                         b"\x0a\x00", b"\x00\x00\x00\x00", b"\x01\x00\x00\x00\x00\x00\x00\x00"], "sub-len")
        return wire.enc_varint(len(body)) + body

    def go(self):
        tape, trace, stats = self.tape, self.trace, self.stats
        ref = self.sim.ref
        thorough = self.sim.thorough
        gen = Gen(tape)
        cls = tape.choice(schemas.ALL, "cls")
        ci = class_info(cls)
        msg = gen.message(cls)
        try:
            enc = bytes(msg)
        except Exception as e:  # noqa: BLE001
            stats["skipped:valid-message-cannot-be-encoded"] += 1
            trace.append(f"skip: bytes() raised {type(e).__name__}")
            return False, 0, 0.0
        writer = "bp"
        if tape.draw(3, "writer") == 2:
            enc = ref.pb_class(cls).FromString(enc).SerializeToString(deterministic=True)
            writer = "ref"
        st, base = self._decode_one(cls, enc, 0)
        if st != "ok":
            stats["skipped:valid-encoding-rejected"] += 1
            trace.append(f"skip: valid encoding rejected: {type(base).__name__}")
            return False, 0, 0.0
        self.primary = tape.draw(4, "primary-entry-point")
        self.short_chunk = tape.choice([1, 2, 3, 7], "short-read-chunk")
        stats[f"probe:primary-entry-point-{self.ENTRY_NAMES[self.primary]}"] += 1
        trace.append(f"{cls.__name__} writer={writer} entry={self.ENTRY_NAMES[self.primary]} enc={len(enc)}B {enc.hex()[:120]} {short(msg, 120)}")
        top = wire.parse_fields(enc)
        bounds = [f.start for f in top] + [len(enc)]
        # M1 is judged in CPU time of this process (ITIMER_VIRTUAL), re-armed for every mutated input:
        # wall-clock time would turn machine load into a verdict.
        old = signal.signal(signal.SIGVTALRM, _alarm)
        try:
            self._faults(cls, ci, enc, base, top, bounds, thorough)
        except _Timeout:
            raise Violation("C17.M1", "did-not-terminate",
                            f"decoding {self.current.hex()[:160]} ({cls.__name__}) used more than {CPU_LIMIT_S} s of CPU time")
        finally:
            signal.setitimer(signal.ITIMER_VIRTUAL, 0)
            signal.signal(signal.SIGVTALRM, old)
        trace.append(f"decodes={self.evals} outcome-hash={self.h.hexdigest()[:16]}")
        return True, self.evals, float(self.evals)

    def _faults(self, cls, ci, enc, base, top, bounds, thorough):
        tape, stats = self.tape, self.stats
        n = len(enc)
        bset = set(bounds)
        # (a) truncation at byte k
        if n <= 128:
            ks = range(0, n)
            stats["probe:truncations-enumerated-exhaustively"] += 1
        else:
            s = set()
            for b in bounds:
                s.update((b - 1, b, b + 1))
            for _ in range(32):
                s.add(tape.draw(n, "trunc"))
            ks = sorted(k for k in s if 0 <= k < n)
        for k in ks:
            if k in bset:
                self.judge(cls, enc[:k], "truncate@boundary", "any", detail=f"k={k}")
                stats["fault:truncate-at-field-boundary"] += 1
            else:
                self.judge(cls, enc[:k], "truncate", "raise", detail=f"cut at byte {k} of {n}, inside a field;")
                stats["fault:truncate-inside-field"] += 1
        # (b) single-byte replacement of tag bytes and length bytes, at every nesting depth
        tags, lens, tails = structure3(enc, cls)
        # (h) the last byte of every structured payload (nested message, map entry, packed list) gets its
        #     continuation bit set, or is replaced: a cut *inside* a well-delimited field
        for off in tails:
            b = enc[off]
            for a in sorted({b | 0x80, b ^ 0x80, 0x80, 0xFF, tape.draw(256, "tail-alt")} - {b}):
                data = enc[:off] + bytes([a]) + enc[off + 1:]
                self.judge(cls, data, "payload-tail-byte", "any", detail=f"byte {off}: {b:#04x}->{a:#04x};")
                stats["fault:replace-last-byte-of-nested-or-packed-payload"] += 1
        for offs, kind in ((tags, "tag-byte"), (lens, "length-byte")):
            for off in offs:
                b = enc[off]
                if thorough and n <= 40:
                    alts = [x for x in range(256) if x != b]
                else:
                    alts = {b ^ 0x80, b ^ 0x01, 0x00, 0xFF, (b + 1) & 0xFF, (b - 1) & 0xFF}
                    if kind == "tag-byte":
                        alts.update(((b & ~7) | w) & 0xFF for w in range(8))
                        alts.add(b & 7)                       # field number 0
                    for _ in range(6):
                        alts.add(tape.draw(256, "alt"))
                    alts.discard(b)
                    alts = sorted(alts)
                for a in alts:
                    data = enc[:off] + bytes([a]) + enc[off + 1:]
                    self.judge(cls, data, kind, "any", detail=f"byte {off}: {b:#04x}->{a:#04x};")
                    stats[f"fault:replace-{kind}"] += 1
        # (c) wire-type substitution on each known field
        for fi in ci.fields:
            fits = declared_wire_types(fi)
            for wt in (wire.VARINT, wire.I64, wire.LEN, wire.I32):
                if wt in fits:
                    continue
                occ = wire.tag(fi.number, wt) + self.wellformed_payload(wt)
                at = bounds[tape.draw(len(bounds), "ins-at")]
                data = enc[:at] + occ + enc[at:]
                self.judge(cls, data, "wire-type-substitution", "same+verbatim", base, occ,
                           detail=f"field {fi.name} (#{fi.number}, {fi.proto_type}{' repeated' if fi.repeated else ''}) sent with wire type {wt};")
                stats["fault:wire-type-substitution"] += 1
        # (i) the same one level down: a FITTING occurrence of a message / wrapper / map field whose payload
        #     carries inner field numbers under non-fitting wire types.  The result may legitimately differ
        #     from the base (the occurrence replaces / adds to the field), so only M1-M3 are judged - in
        #     particular every value must still have its declared Python type.
        for fi in ci.fields:
            if wire.LEN not in declared_wire_types(fi) or not (fi.is_map or fi.proto_type == "message"):
                continue
            inner_nums = [1, 2]
            if fi.proto_type == "message" and isinstance(fi.py_cls, type) and issubclass(fi.py_cls, betterproto.Message) and not fi.wraps:
                inner_nums = [f2.number for f2 in class_info(fi.py_cls).fields][:6] or [1]
            for num in inner_nums[: 1 + tape.draw(3, "nested-sub-n")]:
                wt = tape.choice([wire.VARINT, wire.I64, wire.LEN, wire.I32], "nested-sub-wt")
                occs = [(num, wt, wire.tag(num, wt) + self.wellformed_payload(wt))]
                if tape.draw(2, "nested-sub-twice"):
                    wt2 = tape.choice([wire.VARINT, wire.I64, wire.LEN, wire.I32], "nested-sub-wt2")
                    num2 = tape.choice(inner_nums, "nested-sub-num2")
                    occs.append((num2, wt2, wire.tag(num2, wt2) + self.wellformed_payload(wt2)))
                if tape.draw(3, "nested-sub-after-good") == 2 and fi.is_map:
                    # ... arriving right after a complete, well-formed entry of the same map
                    good_entries = [f.raw if hasattr(f, "raw") else enc[f.start:f.end] for f in top if f.num == fi.number]
                    lead = good_entries[0] if good_entries else b""
                else:
                    lead = b""
                inner = b"".join(o[2] for o in occs)
                clean = b"".join(o[2] for o in occs if not _inner_mismatch(fi, o[0], o[1]))
                at = bounds[tape.draw(len(bounds), "ins-at")]
                data = enc[:at] + lead + wire.f_len(fi.number, inner) + enc[at:]
                st = self.judge(cls, data, "nested-wire-type-substitution", "any",
                                detail=f"field {fi.name} (#{fi.number}) carrying inner field #{num} with wire type {wt};")
                stats["fault:nested-wire-type-substitution"] += 1
                if st == "ok" and clean != inner:
                    # sentence 3, one level down: the non-fitting inner occurrences must not change what the known
                    # fields decode to - compared with the SAME input without them, through the same decoder
                    twin = enc[:at] + lead + wire.f_len(fi.number, clean) + enc[at:]
                    a = self._decode_one(cls, data, self.primary)
                    b = self._decode_one(cls, twin, self.primary)
                    self.evals += 2
                    if a[0] == "ok" and b[0] == "ok":
                        try:
                            same = struct_eq(a[1], b[1])
                        except Exception as e:  # noqa: BLE001
                            raise Violation("C17.M4", "compare-raised:nested", f"{type(e).__name__}: {e}")
                        if not same:
                            raise Violation("C17.M4", "known-field-altered:nested-wire-type-substitution",
                                            f"[nested-wire-type-substitution] via {self.ENTRY_NAMES[self.primary]} field {fi.name} "
                                            f"(#{fi.number}): payload {inner.hex()} holds inner occurrences under non-fitting wire "
                                            f"types; with them {data.hex()[:120]} decodes to {short(a[1], 120)}, without them "
                                            f"({clean.hex()}) to {short(b[1], 120)}")
                        stats["probe:nested-mismatch-compared-with-its-removal"] += 1
        # (j) well-formed but ODD occurrences under the FITTING wire type: varints that no writer of this
        #     schema would emit (2 for a bool, 10-byte values, non-minimal encodings), all-ones fixed-width
        #     payloads, an unpacked element next to a packed list.  Judged by M1-M3 only (types, re-encoding).
        for fi in ci.fields:
            fits = declared_wire_types(fi)
            if fi.is_map or fi.proto_type in ("string", "bytes", "message"):
                continue
            base_wt = fits[0]
            if base_wt == wire.VARINT:
                pays = [wire.enc_varint(2), wire.enc_varint(2**32), wire.enc_varint(2**63), wire.enc_varint(2**64 - 1),
                        b"\x80\x00", b"\xff\xff\xff\xff\xff\xff\xff\xff\xff\x7f"]
            elif base_wt == wire.I32:
                pays = [b"\xff\xff\xff\xff", b"\x00\x00\xc0\x7f"]
            else:
                pays = [b"\xff" * 8, b"\x00\x00\x00\x00\x00\x00\xf8\x7f"]
            pay = tape.choice(pays, "odd-value")
            occ = wire.tag(fi.number, base_wt) + pay
            if fi.repeated and tape.draw(2, "odd-packed"):
                occ = wire.f_len(fi.number, pay + pay)       # packed with two elements
            at = bounds[tape.draw(len(bounds), "ins-at")]
            self.judge(cls, enc[:at] + occ + enc[at:], "odd-wellformed-value", "any",
                       detail=f"field {fi.name} (#{fi.number}, {fi.proto_type}) given {occ.hex()};")
            stats["fault:odd-wellformed-value"] += 1
        known = [fi.number for fi in ci.fields] or [1]
        # (d) illegal tags
        for wt in (6, 7):
            num = tape.choice(known + [999], "ill-num")
            occ = wire.tag(num, wt) + tape.choice([b"", b"\x00", b"\x01\x02\x03\x04"], "ill-pay")
            at = bounds[tape.draw(len(bounds), "ins-at")]
            self.judge(cls, enc[:at] + occ + enc[at:], f"wire-type-{wt}", "raise", detail=f"tag {occ.hex()} at {at};")
            stats["fault:illegal-wire-type"] += 1
        for wt in (0, 1, 2, 5):
            occ = wire.tag(0, wt) + self.wellformed_payload(wt)
            at = bounds[tape.draw(len(bounds), "ins-at")]
            self.judge(cls, enc[:at] + occ + enc[at:], "field-number-0", "raise", detail=f"occurrence {occ.hex()} at {at};")
            stats["fault:field-number-0"] += 1
        # (e) proto2 groups whose inner field numbers collide with known fields
        for variant in range(3):
            inner = b""
            for _ in range(1 + tape.draw(3, "grp-n")):
                num = tape.choice(known, "grp-inner-num")
                wt = tape.choice([wire.VARINT, wire.LEN, wire.I32, wire.I64], "grp-inner-wt")
                inner += wire.tag(num, wt) + self.wellformed_payload(wt)
            if variant == 1:
                inner = wire.f_group(tape.choice(known + [888], "grp-nested-num"), inner)
            gnum = 777 if variant != 2 else tape.choice(known, "grp-known-num")
            occ = wire.f_group(gnum, inner)
            at = bounds[tape.draw(len(bounds), "ins-at")]
            # the statement names groups apart from "a known field number with a wire type that does not fit"
            # and promises one thing about them: they never alter a known field.  Skipping, keeping and
            # (sentence 1) rejecting a group are all within it; applying its content is not.
            self.judge(cls, enc[:at] + occ + enc[at:], "group", "same-or-raise", base, occ,
                       detail=f"group #{gnum} variant {variant};")
            stats["fault:group"] += 1
        # unterminated group: a cut field
        occ = wire.tag(777, wire.SGROUP) + wire.f_varint(known[0], 1)
        self.judge(cls, enc + occ, "unterminated-group", "raise", detail="group without end tag;")
        # (f) over-long varints, lengths pointing past the end, lengths of 2**63
        at = bounds[tape.draw(len(bounds), "ins-at")]
        longv = b"\x80" * 10 + b"\x01"
        self.judge(cls, enc[:at] + longv + enc[at:], "overlong-varint-tag", "any")
        self.judge(cls, enc[:at] + wire.tag(known[0], wire.VARINT) + longv + enc[at:], "overlong-varint-value", "any")
        self.judge(cls, enc[:at] + wire.tag(999, wire.LEN) + longv + enc[at:], "overlong-varint-length", "any")
        for num in (known[0], 999):
            for ln in (len(enc) + 1, 2**31, 2**63, 2**64 - 1):
                data = enc + wire.tag(num, wire.LEN) + wire.enc_varint(ln) + b"xy"
                self.judge(cls, data, "length-past-end", "raise", detail=f"declared length {ln};")
                stats["fault:length-past-end"] += 1
        stats["fault:overlong-varint"] += 3
        # (g) uniformly random byte strings, and 1-3 random byte flips (a fault *sequence*)
        for _ in range(4):
            data = tape.rng_bytes(tape.draw(33, "noise-len"), "noise")
            self.judge(cls, data, "noise", "any")
            stats["fault:noise"] += 1
        if n:
            for _ in range(6):
                data = bytearray(enc)
                for _ in range(1 + tape.draw(3, "flips")):
                    data[tape.draw(n, "flip-at")] = tape.draw(256, "flip-to")
                if tape.draw(3, "then-truncate") == 2:
                    data = data[: tape.draw(n + 1, "flip-trunc")]
                self.judge(cls, bytes(data), "byte-flips", "any")
                stats["fault:byte-flip-sequence"] += 1


class CorruptSim(Simulator):
    isolate_runs = True
    name = "corruptsim"
    property_id = "C17"
    level = "fault_enumeration"
    rules = RULES
    generation_rule = ("Each history draws a message class and an in-domain value, encodes it (betterproto or reference "
                       "writer), then applies the whole storage-fault space to the stored bytes: truncation at EVERY byte "
                       "(encodings <= 128 B), replacement of every tag byte and every length byte at every nesting depth "
                       "(structured alternatives + 6 drawn; all 255 in the thorough tier for encodings <= 40 B), the last byte of "
                       "every nested-message / map-entry / packed payload (dangling continuation bit), every "
                       "known field re-sent under every non-fitting legal wire type (also one level down, inside message / wrapper / "
                       "map-entry payloads), wire types 6/7, field number 0, "
                       "proto2 groups colliding with known numbers, over-long varints, lengths past the end / 2^63, "
                       "random strings and 1-3-flip sequences. Every run draws a primary entry point (parse, FromString, load, load "
                       "SIZE_DELIMITED) through which every mutated input is decoded; every third input also goes through one of "
                       "the other three in rotation. Each entry point is judged on its own.")
    nontrivial_rule = "the valid encoding decoded and at least one mutated input was decoded."
    sim_time_unit = "mutated decodes"
    components_real = ["betterproto Message.parse/FromString/load, load_fields, load_varint, _postprocess_single, __bytes__",
                       "google.protobuf (upb) FromString as recorded, not enforced, reference"]
    components_stub = ["storage (byte strings mutated by the fault injector)", "independent spec-level wire parser (oracle side)"]
    assumptions = ["value domain of valgen", "top-level malformedness is judged by the independent wire parser",
                   "agreement with the reference decoder is recorded (coverage.counters ref:*), not enforced"]
    tiers = {
        "quick": dict(runs=800, chunk=5, wall_cap=300, det_sample=20),
        "thorough": dict(runs=16000, chunk=20, wall_cap=1500, det_sample=400),
    }
    expected_probes = ["fault:wire-type-substitution", "fault:group", "fault:field-number-0",
                       "fault:truncate-inside-field", "fault:replace-tag-byte", "fault:replace-length-byte",
                       "fault:replace-last-byte-of-nested-or-packed-payload"]
    thorough = False
    run_watchdog_s = 1800        # wall-clock guard against a hung worker only; M1 itself is judged in CPU time

    def prepare(self, tier):
        schemas.warm()
        self.ref = RefSchema(schemas.ALL)
        self.thorough = (tier == "thorough")
        self.prepared_state = {"tier": tier}

    def adopt(self, state):
        self.prepare(state["tier"])

    def execute(self, tape, trace, stats):
        return _Run(self, tape, trace, stats).go()
