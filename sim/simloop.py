"""SimLoop: an asyncio event loop whose scheduler and clock belong to the simulator.

* time() is a virtual clock; when nothing is runnable it jumps to the next timer.
* ready handles are run ONE AT A TIME; a scheduling policy (driven by the decision tape) says
  which one.  After every handle the simulator's invariant hook runs.
* quiescence (no ready handle, no live timer) ends the run; the oracle decides what that means.
* no selector, no socket, no thread.

Policies
  P0 fifo+ties : exactly stock asyncio order (iteration batching included); timers due at the
                 same instant are ordered by the tape.
  P1 arrivals  : as P0, plus "external completions": futures owned by the scheduler which it
                 resolves between any two ready handles and whose wake-up it moves to a
                 tape-chosen position in the ready queue (an I/O or call_soon_threadsafe completion
                 arriving mid-iteration).  Realisable on a stock loop.
  P2 permute   : any ready handle may run next.
"""
from __future__ import annotations

import asyncio
import heapq
import sys
import threading
from asyncio import events, tasks
from typing import Any, Callable, List, Optional

P0, P1, P2 = 0, 1, 2


class _SimTimer(events.TimerHandle):
    __slots__ = ("_seq",)


class Budget(Exception):
    """Step or virtual-time budget exceeded: a harness outcome, never a violation."""


class SimLoop(asyncio.BaseEventLoop):
    STARVE_AFTER = 64

    def __init__(self, tape, policy: int = P0, max_steps: int = 20000, max_time: float = 1e7,
                 shuffle_ties: bool = True):
        super().__init__()
        self.tape = tape
        self.policy = policy
        self.max_steps = max_steps
        self.max_time = max_time
        self.shuffle_ties = shuffle_ties
        self._now = 0.0
        self._timers: List[Any] = []          # heap of (when, seq, handle)
        self._tseq = 0
        self._task_counter = 0
        self.steps = 0
        self.unhandled: List[str] = []
        self.externals: List[Any] = []   # P1: (future, len(ready) at creation, pops at creation)
        self.after_handle: Optional[Callable[[], None]] = None
        self.before_handle: Optional[Callable[[Any], None]] = None
        self.stats = None                      # Counter supplied by the simulator
        self.set_exception_handler(self._on_unhandled)
        self.set_task_factory(self._task_factory)
        self._clock_resolution = 1e-9
        self._since_clock_moved = 0
        self._pops = 0                         # handles taken from the front of the ready queue so far

    # -- things BaseEventLoop wants from a concrete loop ------------------------------------
    def _process_events(self, event_list):
        pass

    def _write_to_self(self):
        pass

    def time(self) -> float:
        return self._now

    def _on_unhandled(self, loop, context):
        exc = context.get("exception")
        msg = context.get("message", "")
        self.unhandled.append(f"{msg}: {type(exc).__name__ if exc else ''}: {exc}")

    def _task_factory(self, loop, coro, **kw):
        self._task_counter += 1
        kw.setdefault("name", None)
        if kw["name"] is None:
            kw["name"] = f"sim-task-{self._task_counter}"
        return tasks.Task(coro, loop=loop, **kw)

    # -- timers ------------------------------------------------------------------------------
    def call_at(self, when, callback, *args, context=None):
        if when is None:
            raise TypeError("when cannot be None")
        self._check_closed()
        timer = _SimTimer(when, callback, args, self, context)
        self._tseq += 1
        timer._seq = self._tseq
        heapq.heappush(self._timers, (when, timer._seq, timer))
        timer._scheduled = True
        return timer

    def call_later(self, delay, callback, *args, context=None):
        if delay is None:
            raise TypeError("delay must not be None")
        return self.call_at(self._now + delay, callback, *args, context=context)

    def _timer_handle_cancelled(self, handle):
        pass

    def live_timers(self) -> int:
        return sum(1 for (_, _, h) in self._timers if not h._cancelled)

    # -- the scheduler -----------------------------------------------------------------------
    def _move_due_timers(self) -> None:
        tm = self._timers
        while tm and tm[0][2]._cancelled:
            heapq.heappop(tm)[2]._scheduled = False
        if not tm:
            return
        # Real time passes while ready handles run.  A program that always has a ready handle (a polling
        # loop around sleep(0)) must not starve its timers for ever just because the clock is virtual:
        # after STARVE_AFTER handles without clock movement the clock is advanced to the earliest timer.
        starving = self._ready and self._since_clock_moved >= self.STARVE_AFTER
        if not self._ready or starving:
            when = tm[0][0]
            if when > self._now:
                if when > self.max_time:
                    raise Budget(f"virtual time cap {self.max_time} exceeded")
                self._now = when
                self._since_clock_moved = 0
        due = []
        while tm and tm[0][0] <= self._now:
            when, seq, h = heapq.heappop(tm)
            h._scheduled = False
            if not h._cancelled:
                due.append((when, seq, h))
        if not due:
            return
        # group by identical instant; the tape orders each group (jitter decides in real life)
        i = 0
        while i < len(due):
            j = i
            while j < len(due) and due[j][0] == due[i][0]:
                j += 1
            group = [d[2] for d in due[i:j]]
            if self.shuffle_ties and len(group) > 1:
                out = []
                while group:
                    out.append(group.pop(self.tape.draw(len(group), "tie")))
                group = out
            self._ready.extend(group)
            i = j

    def _run_handle(self, h) -> None:
        if h._cancelled:
            return
        if self.before_handle is not None:
            self.before_handle(h)
        self.steps += 1
        self._since_clock_moved += 1
        if self.steps > self.max_steps:
            raise Budget(f"step cap {self.max_steps} exceeded")
        h._run()
        if self.after_handle is not None:
            self.after_handle()

    def _maybe_arrival(self) -> None:
        """P1: between two handles, possibly complete one external future and place its
        wake-up anywhere in the ready queue."""
        ext = self.externals
        if not ext:
            return
        # when nothing else is runnable *now* an arrival is forced: an external completion never
        # waits for the clock (long-period timers such as keep-alives must not hold it back)
        force = not self._ready
        if not force and not self.tape.chance(1, 3, "arrive?"):
            return
        k = self.tape.draw(len(ext), "arrive-which")
        fut, ready_at_creation, pops_at_creation = ext.pop(k)
        if fut.done():
            return
        before = len(self._ready)
        fut.set_result(None)
        n_new = len(self._ready) - before
        # handles that were queued before this completion could possibly exist keep their precedence
        # (call_soon is FIFO): only the handles queued since then may be overtaken
        old_front = max(0, ready_at_creation - (self._pops - pops_at_creation))
        movable = max(0, before - old_front)
        if n_new == 1 and movable > 0:
            pos = self.tape.draw(movable + 1, "arrive-pos")
            if pos != 0:
                h = self._ready.pop()
                self._ready.insert(before - pos, h)
            if self.stats is not None and pos != 0:
                self.stats["probe:external-arrival-mid-queue"] += 1

    def external(self) -> asyncio.Future:
        fut = self.create_future()
        self.externals.append((fut, len(self._ready), self._pops))
        return fut

    def _iteration(self) -> bool:
        """One loop iteration.  Returns False at quiescence."""
        ready = self._ready
        if self.policy == P1:
            self._maybe_arrival()
            if not ready and self.externals:
                return True        # the forced arrival resolved an already finished future: try again
        self._move_due_timers()
        if not ready:
            return bool(self._timers) and any(not h._cancelled for _, _, h in self._timers)
        if self.policy == P2:
            # any ready handle may run next; timers are re-examined after every handle
            k = self.tape.draw(len(ready), "pick")
            if k:
                h = ready[k]
                del ready[k]
            else:
                h = ready.popleft()
            self._run_handle(h)
            return True
        ntodo = len(ready)
        for _ in range(ntodo):
            if not ready:
                break
            h = ready.popleft()
            self._pops += 1
            self._run_handle(h)
            if self.policy == P1:
                self._maybe_arrival()
        return True

    def run_sim(self, until: Optional[Callable[[], bool]] = None) -> str:
        """Run to quiescence (or until `until()` is true).  Returns 'quiescent' | 'until'."""
        self._check_closed()
        old_hooks = sys.get_asyncgen_hooks()
        self._thread_id = threading.get_ident()
        sys.set_asyncgen_hooks(firstiter=self._asyncgen_firstiter_hook,
                               finalizer=self._asyncgen_finalizer_hook)
        events._set_running_loop(self)
        try:
            while True:
                if until is not None and until():
                    return "until"
                if not self._iteration():
                    return "quiescent"
        finally:
            self._thread_id = None
            events._set_running_loop(None)
            sys.set_asyncgen_hooks(*old_hooks)

    def run_forever(self):  # used by run_until_complete (shutdown helpers)
        self._stopping = False
        self.run_sim(until=lambda: self._stopping)
        self._stopping = False

    def finish(self) -> None:
        """Cancel whatever is left, close async generators, close the loop."""
        self.shuffle_ties = False       # cleanup must not consume tape decisions
        try:
            for _ in range(5):
                pending = [t for t in tasks.all_tasks(self) if not t.done()]
                if not pending:
                    break
                for t in pending:
                    t.cancel()
                saved = (self.max_steps, self.policy, self.after_handle, self.before_handle)
                self.max_steps = self.steps + 100000
                self.policy = P0
                self.after_handle = self.before_handle = None
                for f, _, _ in self.externals:
                    if not f.done():
                        f.cancel()
                self.externals.clear()
                try:
                    self.run_sim(until=lambda: all(t.done() for t in pending))
                except Budget:
                    break
                finally:
                    self.max_steps, self.policy, self.after_handle, self.before_handle = saved
                for t in pending:
                    if t.done() and not t.cancelled():
                        t.exception()   # mark retrieved
            try:
                self.policy = P0
                self.max_steps = self.steps + 100000
                self.run_until_complete(self.shutdown_asyncgens())
            except BaseException:
                pass
        finally:
            self._timers.clear()
            self._ready.clear()
            self.close()
