"""grpcsim — C11: generated gRPC stub and server base agree.

Real code: the working tree's plugin output (generated <Svc>Stub / <Svc>Base), betterproto
ServiceStub / ServiceBase / AsyncChannel, grpclib client, server, protocol, events, h2, hpack.
Simulated: the event loop's scheduler and clock (SimLoop), the TCP connection (SimNet), the `time`
module as seen by grpclib.  Stub: ruff (identity filter, formatting only).
"""
from __future__ import annotations

import asyncio
import hashlib
import os
import random
from typing import Any, Dict, List, Optional, Tuple

from . import repo  # noqa: F401
import betterproto
import grpclib
import grpclib.client
import grpclib.server
from grpclib.const import Status
from grpclib.events import RecvRequest, SendTrailingMetadata, listen
from grpclib.exceptions import GRPCError, StreamTerminatedError
from grpclib.metadata import Deadline

from betterproto.grpc.util.async_channel import AsyncChannel

from . import gen
from .engine import Simulator, Violation
from .simloop import P0, P1, Budget, SimLoop
from .tape import Tape
from .transport import SimNet, install_virtual_time
from .valgen import Gen, class_info, short

RULES = {
    "C11.H1": "a call through the generated stub invokes exactly the handler for the same RPC, once, with a "
              "request (or request stream) equal to what the caller sent",
    "C11.H2": "the caller receives the handler's response (or response stream) equal and in order; concurrent "
              "calls on one channel do not see each other's messages",
    "C11.H3": "a method not overridden answers UNIMPLEMENTED",
    "C11.H4": "a handler's GRPCError status (and message) reaches the caller",
    "C11.H5": "per-call timeout / deadline / metadata take precedence over the stub-level defaults; the server "
              "sees the effective values",
    "C11.H6": "bounded liveness: with no fault injected every call completes; the simulated world never goes "
              "quiet with a call pending",
    "C11.G1": "every service of the frozen corpus still generates and imports",
}

ERR_STATUSES = [Status.NOT_FOUND, Status.PERMISSION_DENIED, Status.FAILED_PRECONDITION, Status.ABORTED,
                Status.INTERNAL, Status.UNAVAILABLE, Status.RESOURCE_EXHAUSTED, Status.ALREADY_EXISTS]
BIG_VALUES = [64.0, 128.0, 256.0, 512.0]        # seconds; none can expire within a fault-free run
SMALL_VALUES = [1 / 64, 1 / 16, 1 / 4, 1 / 2]   # seconds; these do expire (faulted sub-batch)

# Methods whose message types the generic value generator cannot drive (static, documented).
SKIP_TYPES = (".google.protobuf.Struct", ".google.protobuf.Value", ".google.protobuf.ListValue")


def _seed(*parts) -> int:
    h = hashlib.sha256()
    for p in parts:
        h.update(p if isinstance(p, bytes) else str(p).encode())
        h.update(b"|")
    return int.from_bytes(h.digest()[:8], "big")


def _resp(md, out_cls, reqs: List[bytes], salt: str):
    rng = random.Random(_seed(md.route, salt, *reqs))
    return Gen(Tape(rng=rng), unlisted_enums=False, nan=False).message(out_cls)


class Plan:
    """What a handler does is a pure function of (route, request bytes): so the caller can compute
    what it must receive without being told which invocation served it.  In a bidirectional stream
    the k-th response is a function of the first k requests only."""

    def __init__(self, md: gen.MethodDesc, out_cls, reqs: List[bytes]):
        self.md = md
        rng = random.Random(_seed(md.route, "plan", *reqs))
        self.error: Optional[Tuple[Status, str]] = None
        if rng.randrange(5) == 0:
            self.error = (ERR_STATUSES[rng.randrange(len(ERR_STATUSES))], f"boom-{rng.randrange(1000)}")
        if md.server_streaming:
            if md.client_streaming:
                self.per_request = [_resp(md, out_cls, reqs[:k + 1], "per") for k in range(len(reqs))]
                self.trailing = [_resp(md, out_cls, reqs, f"trail{j}") for j in range(rng.randrange(2))]
                self.responses = self.per_request + self.trailing
            else:
                self.responses = [_resp(md, out_cls, reqs, f"r{j}") for j in range(rng.randrange(4))]
        else:
            self.responses = [] if self.error else [_resp(md, out_cls, reqs, "single")]


def _harness_origin(e: BaseException) -> bool:
    """True if the innermost frame of the traceback is a file of /verif/sim itself."""
    tb, last = e.__traceback__, None
    while tb is not None:
        last, tb = tb, tb.tb_next
    if last is None:
        return False
    here = os.path.dirname(os.path.abspath(__file__))
    return os.path.abspath(last.tb_frame.f_code.co_filename).startswith(here)


class _Call:
    __slots__ = ("idx", "svc", "md", "kind", "reqs", "req_bytes", "cfg", "t0", "outcome", "received", "error",
                 "expected_plan", "overridden", "call_id", "fault", "done", "src_kind", "t_end", "stub_t")


class _Run:
    def __init__(self, sim: "GrpcSim", tape, trace, stats):
        self.sim, self.tape, self.trace, self.stats = sim, tape, trace, stats
        self.policy = P0 if tape.draw(2, "policy") == 0 else P1
        self.loop = SimLoop(tape, self.policy, max_steps=60000, max_time=20000.0)
        self.loop.stats = stats
        self.calls: List[_Call] = []
        self.invocations: List[Dict[str, Any]] = []
        self.recv_events: List[Dict[str, Any]] = []
        self.route_of_task: Dict[Any, str] = {}
        self.trailers_sent: List[Tuple[str, Any]] = []
        self.no_md_routes: set = set()
        self.feeders: List[Any] = []
        self.lost_at: Optional[float] = None
        self.faulted = False

    # ---- pauses ---------------------------------------------------------------------------------
    async def pause(self, label="pause"):
        k = self.tape.draw(4, label)
        if k == 0:
            return
        if k == 1:
            await asyncio.sleep(0)
        elif k == 2 or self.policy != P1:
            await asyncio.sleep([1 / 1024, 1 / 128, 1 / 16, 1 / 4][self.tape.draw(4, "dur")])
        else:
            await self.loop.external()

    # ---- server side ------------------------------------------------------------------------------
    def _on_recv_request(self, event: RecvRequest):
        dl = event.deadline
        md = {}
        for k, v in event.metadata.items():
            md[k] = v
        try:
            multi = list(event.metadata.getall("x-multi", [])) + list(event.metadata.getall("x-multi-bin", []))
        except AttributeError:
            multi = [v for k, v in event.metadata.items() if k in ("x-multi", "x-multi-bin")]
        if multi:
            md["x-multi*"] = multi
        self.recv_events.append(dict(route=event.method_name, remaining=None if dl is None else dl.time_remaining(),
                                     metadata=md, at=self.loop.time(), matched=False))

    def make_service(self, case: gen.Case, sd: gen.ServiceDesc, base_cls, overridden: List[bool]):
        run = self
        names = gen.methods_for(base_cls, sd)
        ns: Dict[str, Any] = {}
        for md, pyname, ov in zip(sd.methods, names, overridden):
            if not ov:
                continue
            out_cls = case.message_class(md.output_type)
            in_cls = case.message_class(md.input_type)
            ns[pyname] = self._handler(sd, md, in_cls, out_cls)
        impl = type(f"Sim{base_cls.__name__}", (base_cls,), ns)
        if self.tape.draw(3, "earlier-instance-of-the-same-class") == 2:
            # a service class is instantiated more than once in a process (tests, one server after another, two
            # servers side by side): an object built - and asked for its routes - EARLIER must not serve this one's calls
            decoy = impl()
            decoy._sim_tag = "decoy"
            decoy.__mapping__()
            self.stats["probe:second-instance-of-the-service-class"] += 1
        real = impl()
        real._sim_tag = "served"
        return real

    def _handler(self, sd, md: gen.MethodDesc, in_cls, out_cls):
        run = self

        async def collect(request):
            if not md.client_streaming:
                return [request]
            out = []
            async for r in request:
                out.append(r)
                await run.pause("srv-read-pause")
            return out

        def record(reqs, inv):
            inv["types_ok"] = all(type(r) is in_cls for r in reqs)
            inv["reqs"] = [bytes(r) for r in reqs]

        if md.server_streaming and md.client_streaming:
            async def h(self, request):
                inv = dict(route=md.route, svc=sd.name, reqs=[], produced=0, matched=False, at=run.loop.time(),
                           by=getattr(self, "_sim_tag", "served"))
                run.invocations.append(inv)
                got = []
                async for r in request:
                    got.append(r)
                    record(got, inv)
                    await run.pause("srv-pause")
                    inv["produced"] += 1
                    yield _resp(md, out_cls, inv["reqs"], "per")
                record(got, inv)
                plan = Plan(md, out_cls, inv["reqs"])
                for resp in plan.trailing:
                    await run.pause("srv-pause")
                    inv["produced"] += 1
                    yield resp
                if plan.error:
                    raise GRPCError(plan.error[0], plan.error[1])
            return h
        if md.server_streaming:
            async def h(self, request):
                inv = dict(route=md.route, svc=sd.name, reqs=[], produced=0, matched=False, at=run.loop.time(),
                           by=getattr(self, "_sim_tag", "served"))
                run.invocations.append(inv)
                record([request], inv)
                plan = Plan(md, out_cls, inv["reqs"])
                for resp in plan.responses:
                    await run.pause("srv-pause")
                    inv["produced"] += 1
                    yield resp
                if plan.error:
                    await run.pause("srv-pause")
                    raise GRPCError(plan.error[0], plan.error[1])
            return h

        async def h(self, request):
            inv = dict(route=md.route, svc=sd.name, reqs=[], produced=0, matched=False, at=run.loop.time(),
                           by=getattr(self, "_sim_tag", "served"))
            run.invocations.append(inv)
            reqs = await collect(request)
            record(reqs, inv)
            plan = Plan(md, out_cls, inv["reqs"])
            await run.pause("srv-pause")
            if plan.error:
                raise GRPCError(plan.error[0], plan.error[1])
            inv["produced"] = 1
            return plan.responses[0]
        return h

    # ---- client side ------------------------------------------------------------------------------
    def _draw_cfg(self, small: bool) -> Dict[str, Any]:
        """The eight-way choice: stub-level x call-level timeout/deadline/metadata None or set; the four
        time values are distinct powers of two so that which one arrived is never in doubt."""
        t = self.tape
        vals = list(SMALL_VALUES if small else BIG_VALUES)
        order = []
        while vals:
            order.append(vals.pop(t.draw(len(vals), "val-order")))
        return dict(
            stub_timeout=order[0] if t.draw(2, "stub-timeout") else None,
            call_timeout=order[1] if t.draw(2, "call-timeout") else None,
            stub_deadline=order[2] if t.draw(2, "stub-deadline") else None,
            call_deadline=order[3] if t.draw(2, "call-deadline") else None,
            stub_md=bool(t.draw(2, "stub-md")), call_md=bool(t.draw(2, "call-md")),
            md_form=t.draw(2, "md-form"),
            # a call-level value that is set but EMPTY ({} / []) still takes precedence: no metadata at all
            call_md_empty=(t.draw(6, "call-md-empty") == 5),
            # a call-level timeout of 0 is a value too (expires at once); faulted sub-batch only
            call_timeout_zero=(small and t.draw(4, "call-timeout-zero") == 3),
        )

    async def client_task(self, ti: int, world, n_calls: int):
        t = self.tape
        share_stubs = (t.draw(3, "share-stubs") == 2) and not self.faulted
        shared: Dict[Any, Any] = {}
        for _ in range(n_calls):
            await self.pause("cli-pause")
            case, sd, stub_cls, overridden = t.choice(world["services"], "service")
            usable = [m for m in sd.methods if m.input_type not in SKIP_TYPES and m.output_type not in SKIP_TYPES]
            if not usable:
                continue
            md = t.choice(usable, "method")
            c = _Call()
            c.idx = len(self.calls)
            self.calls.append(c)
            c.svc, c.md = sd, md
            c.overridden = overridden[md.index]
            c.call_id = f"c{c.idx}"
            c.kind = ("unary", "stream")[md.client_streaming] + "-" + ("unary", "stream")[md.server_streaming]
            c.src_kind, c.t0, c.t_end, c.stub_t, c.cfg, c.reqs, c.req_bytes = "?", -1.0, None, -1.0, None, [], []
            c.fault = None
            c.done = False
            c.received, c.error, c.outcome = [], None, "not-started"
            in_cls = case.message_class(md.input_type)
            out_cls = case.message_class(md.output_type)
            g = Gen(t, unlisted_enums=False, nan=False)
            n_req = 1 if not md.client_streaming else t.draw(5, "n-req")
            c.reqs = []
            for _ in range(n_req):
                m = g.message(in_cls)
                if t.draw(25, "huge?") == 24:
                    m = self._make_huge(m, in_cls)
                c.reqs.append(m)
            c.req_bytes = [bytes(m) for m in c.reqs]
            c.expected_plan = Plan(md, out_cls, c.req_bytes)
            fk = t.weighted([4, 3, 2, 2], "fault-kind") if self.faulted else 0
            if fk == 2 and not md.server_streaming:
                fk = 0
            small = (fk == 1)
            if fk == 1:
                c.fault = "expiring-deadline"
            elif fk == 2:
                c.fault = "abandon"
            cfg = self._draw_cfg(small)
            if cfg["call_md_empty"]:
                cfg["call_md"] = False
                self.stats["probe:empty-call-level-metadata"] += 1
            if cfg["call_timeout_zero"]:
                cfg["call_timeout"] = 0.0
                self.stats["probe:zero-call-level-timeout"] += 1
            if (not cfg["stub_md"] or cfg["call_md_empty"]) and not cfg["call_md"]:
                if md.route in self.no_md_routes:
                    cfg["call_md"] = True      # a second anonymous call on this route could not be told apart
                    cfg["call_md_empty"] = False
                else:
                    self.no_md_routes.add(md.route)
            c.cfg = cfg
            mk_md = (lambda level: {"x-level": level, f"x-{level}-only": "1", "x-call": c.call_id,
                                    "x-blob-bin": b"\x00\xff" + level.encode()})
            def form(d):
                if d is None:
                    return None
                if cfg["md_form"] == 0:
                    return d
                pairs = list(d.items())
                if d:
                    # a list of pairs may repeat a key (gRPC metadata is a multimap): every value must arrive, in order
                    lvl = d["x-level"]
                    pairs += [("x-multi", lvl + "-1"), ("x-multi", lvl + "-2"),
                              ("x-multi-bin", b"\x01" + lvl.encode()), ("x-multi-bin", b"\x02" + lvl.encode())]
                    self.stats["probe:metadata-pairs-with-a-repeated-key"] += 1
                return pairs
            key = (ti, sd.package, sd.name)
            if share_stubs and key in shared:
                # one stub object serves several calls of this task: its stub-level values were drawn once
                stub, c.stub_t, scfg = shared[key]
                cfg["stub_timeout"], cfg["stub_deadline"], cfg["stub_md"] = scfg
                self.stats["probe:stub-object-reused-for-another-call"] += 1
            else:
                if share_stubs:
                    cfg["stub_md"] = False       # a shared stub cannot carry a per-call id
                stub = stub_cls(
                    world["channel"],
                    timeout=cfg["stub_timeout"],
                    deadline=None if cfg["stub_deadline"] is None else Deadline.from_timeout(cfg["stub_deadline"]),
                    metadata=form(mk_md("stub") if cfg["stub_md"] else None),
                )
                c.stub_t = self.loop.time()
                if share_stubs:
                    shared[key] = (stub, c.stub_t, (cfg["stub_timeout"], cfg["stub_deadline"], False))
            if share_stubs and not cfg["call_md"] and not cfg["call_md_empty"]:
                if md.route in self.no_md_routes:
                    cfg["call_md"] = True
                else:
                    self.no_md_routes.add(md.route)
            await self.pause("stub-to-call-pause")
            kwargs = dict(
                timeout=cfg["call_timeout"],
                deadline=None if cfg["call_deadline"] is None else Deadline.from_timeout(cfg["call_deadline"]),
                metadata=form(mk_md("call") if cfg["call_md"] else ({} if cfg["call_md_empty"] else None)),
            )
            pyname = gen.methods_for(stub_cls, sd)[md.index]
            method = getattr(stub, pyname)
            if self.net.lost:
                c.outcome = "not-started"
                c.done = True
                return
            c.t0 = self.loop.time()
            c.outcome = "pending"
            if fk == 3:
                off = [1 / 1024, 1 / 128, 1 / 16, 1 / 4, 1.0][t.draw(5, "cancel-after")]
                self.loop.call_later(off, asyncio.current_task().cancel)
                self.stats["fault:client-task-cancel-scheduled"] += 1
            abandon_after = t.draw(3, "abandon-after") if fk == 2 else None
            try:
                pingpong = None
                if md.client_streaming and md.server_streaming and fk == 0 and c.overridden and t.draw(5, "ping-pong?") == 4:
                    # the README idiom: an AsyncChannel fed by the caller itself as responses arrive -
                    # request k+1 is only sent once response k has been received
                    pingpong = AsyncChannel()
                    c.src_kind = "AsyncChannel-ping-pong"
                    if c.reqs:
                        await pingpong.send(c.reqs[0])
                    else:
                        pingpong.close()
                    arg = pingpong
                    self.stats["probe:ping-pong-bidi-call"] += 1
                elif md.client_streaming:
                    src, c.src_kind, feeder = self._request_source(c)
                    arg = src
                else:
                    arg, c.src_kind, feeder = c.reqs[0], "single", None
                if md.server_streaming:
                    it = method(arg, **kwargs)
                    async for resp in it:
                        c.received.append(resp)
                        if pingpong is not None:
                            n_got = len(c.received)
                            if n_got < len(c.reqs):
                                await pingpong.send(c.reqs[n_got])
                            elif n_got == len(c.reqs):
                                pingpong.close()
                        if abandon_after is not None and len(c.received) > abandon_after:
                            break
                        await self.pause("cli-read-pause")
                    if abandon_after is not None and len(c.received) > abandon_after:
                        self.stats["fault:response-iterator-abandoned"] += 1
                        await it.aclose()
                        c.outcome = "abandoned"
                        continue
                else:
                    c.received.append(await method(arg, **kwargs))
                c.outcome = "ok"
            except GRPCError as e:
                c.outcome = "grpc-error"
                c.error = (e.status, e.message)
            except asyncio.CancelledError:
                c.outcome = "cancelled"
                raise
            except Exception as e:  # noqa: BLE001
                if _harness_origin(e):
                    raise                       # a bug of this harness is never judged as the call's outcome
                c.outcome = "exception"
                c.error = (type(e).__name__, str(e)[:200])
            finally:
                c.done = True
                c.t_end = self.loop.time()

    def _make_huge(self, m, cls):
        for fi in class_info(cls).fields:
            if fi.proto_type in ("string", "bytes") and not fi.repeated and not fi.is_map and not fi.group and not fi.optional:
                setattr(m, fi.name, ("H" * 70000) if fi.proto_type == "string" else (b"\xa5" * 70000))
                self.stats["probe:message-larger-than-h2-window"] += 1
                break
        return m

    def _request_source(self, c: _Call):
        t = self.tape
        k = t.draw(6, "src-kind")
        run = self
        if k == 0:
            return list(c.reqs), "list", None
        if k == 3:
            return tuple(c.reqs), "tuple", None
        if k == 4:
            return (m for m in c.reqs), "generator", None       # a lazy synchronous iterable
        if k == 5:
            return iter(list(c.reqs)), "iterator", None
        if k == 1:
            async def agen():
                for m in c.reqs:
                    await run.pause("src-pause")
                    yield m
            return agen(), "async-generator", None
        ch = AsyncChannel(buffer_limit=t.draw(3, "chan-buffer"))

        async def feed():
            for m in c.reqs:
                await run.pause("feed-pause")
                await ch.send(m)
            await run.pause("feed-pause")
            ch.close()
        task = self.loop.create_task(feed(), name=f"feeder-{c.idx}")
        self.feeders.append(task)
        self.stats["probe:request-stream-from-AsyncChannel"] += 1
        return ch, "AsyncChannel", task

    # ---- the run -----------------------------------------------------------------------------------
    def go(self):
        vt = install_virtual_time()
        vt.loop = self.loop
        asyncio.set_event_loop(self.loop)
        try:
            return self._go()
        except Budget as b:
            # a cap of the simulator, not a sentence of C11: reported as a harness outcome (exit 2)
            raise RuntimeError(f"BUDGET: the simulated world did not settle: {b}")
        finally:
            try:
                self._teardown()
            finally:
                self.loop.finish()
                asyncio.set_event_loop(None)
                vt.loop = None

    def _teardown(self):
        w = getattr(self, "world", None)
        if not w:
            return
        self.net.quiet = True
        try:
            w["channel"]._protocol.connection_lost(None)
            w["channel"].close()
            w["server_proto"].connection_lost(None)
            w["server"].close()
        except Exception:  # noqa: BLE001
            pass

    def _go(self):
        tape, loop, stats = self.tape, self.loop, self.stats
        sim = self.sim
        self.faulted = (tape.draw(10, "sub-batch") >= 7) and sim.faults_enabled
        case_name = tape.choice(sim.case_names, "case")
        case = sim.cases[case_name]
        services = []
        instances = []
        for sd in case.services:
            stub_cls, base_cls = case.stub_and_base(sd)
            overridden = [tape.draw(5, "override?") != 4 for _ in sd.methods]
            services.append((case, sd, stub_cls, overridden))
            instances.append(self.make_service(case, sd, base_cls, overridden))
        self.net = SimNet(loop, tape, stats, allow_stall=self.faulted, resegment=True)
        self.net.quiet = False
        world: Dict[str, Any] = dict(services=services)

        async def boot():
            from grpclib.testing import _Server
            from grpclib.config import Configuration
            # Small windows only in the fault-free sub-batch: grpclib/h2 do not hand back the connection
            # window of data buffered for a stream that was reset (cancelled / abandoned / expired), so
            # with 64 KiB windows later calls stall for ever - a property of grpclib, not of the stub.
            small = (not self.faulted) and tape.draw(3, "small-h2-windows") == 2
            cfg = Configuration(http2_connection_window_size=65535 if small else 4 * 2**20,
                                http2_stream_window_size=65535 if small else 4 * 2**20)
            if small:
                stats["probe:small-h2-flow-control-windows"] += 1
            server = grpclib.server.Server(instances, config=cfg)
            server._server = _Server()
            server._server_closed_fut = loop.create_future()
            listen(server, RecvRequest, self._on_recv_request_async)
            listen(server, SendTrailingMetadata, self._on_send_trailers_async)
            server_proto = server._protocol_factory()
            channel = grpclib.client.Channel(config=cfg)
            channel._protocol = channel._protocol_factory()
            channel._protocol.connection_made(self.net.transport("c2s", server_proto))
            server_proto.connection_made(self.net.transport("s2c", channel._protocol))
            async def _no_reconnect():
                raise ConnectionRefusedError("simulated peer is gone")
            channel._create_connection = _no_reconnect
            world.update(server=server, server_proto=server_proto, channel=channel)
        loop.run_until_complete(boot())
        self.world = world
        n_tasks = 1 + tape.draw(4, "n-clients")
        tasks = [loop.create_task(self.client_task(i, world, 1 + tape.draw(3, "n-calls")), name=f"client-{i}")
                 for i in range(n_tasks)]
        self.trace.append(f"case={case_name} policy={'P0' if self.policy == P0 else 'P1'} "
                          f"sub-batch={'faulted' if self.faulted else 'fault-free'} clients={n_tasks} "
                          f"overridden={[(sd.name, ov) for _, sd, _, ov in services]}")
        if self.faulted:
            self._schedule_faults(tasks)
        # grpclib keeps a keep-alive timer (7200 s on the server): "quiet" therefore means "all client
        # tasks done", and a world in which virtual time passes 1000 s with a call pending is stuck.
        loop.run_sim(until=lambda: all(t.done() for t in tasks) or loop.time() > 1000.0)
        pending = [t.get_name() for t in tasks if not t.done()]
        self._trace_calls()
        if pending:
            stuck = [c for c in self.calls if not c.done]
            raise Violation("C11.H6", "call-never-completes",
                            f"the simulated world went quiet at t={loop.time():g}s with {pending} still pending; "
                            f"stuck calls: {[(c.md.route, c.kind, c.src_kind, len(c.reqs)) for c in stuck]}")
        for t in tasks:
            if t.cancelled():
                continue
            e = t.exception()
            if e is not None:
                raise e
        for tk in self.feeders:      # a feeder of the harness dying of an exception must not go unnoticed
            if tk.done() and not tk.cancelled() and tk.exception() is not None:
                raise tk.exception()
        self._oracle()
        nontrivial = len(self.calls) >= 2 or any(c.md.client_streaming or c.md.server_streaming for c in self.calls)
        return nontrivial, loop.steps, loop.time()

    async def _on_recv_request_async(self, event):
        self._on_recv_request(event)
        task = asyncio.current_task()
        self.route_of_task[task] = event.method_name

    async def _on_send_trailers_async(self, event):
        route = self.route_of_task.get(asyncio.current_task(), "?")
        self.trailers_sent.append((route, event.status))

    def _schedule_faults(self, tasks):
        t = self.tape
        if t.draw(4, "connection-loss?") == 3:
            at = [1 / 128, 1 / 16, 1 / 4, 1.0, 2.0][t.draw(5, "loss-at")]

            def lose():
                self.lost_at = self.loop.time()
                self.stats["fault:connection-lost"] += 1
                self.net.lose_connection([self.world["channel"]._protocol, self.world["server_proto"]])
            self.loop.call_later(at, lose)

    def _trace_calls(self):
        for c in self.calls:
            cfg = c.cfg or dict(stub_timeout="?", call_timeout="?", stub_deadline="?", call_deadline="?", stub_md="?", call_md="?")
            cfg = dict(cfg, call_md=("EMPTY" if cfg.get("call_md_empty") else cfg["call_md"]))
            self.trace.append(
                f"call {c.idx} {c.md.route} {c.kind} src={getattr(c, 'src_kind', '?')} n_req={len(c.reqs)} "
                f"req_sha={hashlib.sha1(b''.join(c.req_bytes)).hexdigest()[:8]} overridden={c.overridden} "
                f"cfg=(st={cfg['stub_timeout']},ct={cfg['call_timeout']},sd={cfg['stub_deadline']},cd={cfg['call_deadline']},"
                f"sm={cfg['stub_md']},cm={cfg['call_md']}) t0={c.t0:g} -> {c.outcome} "
                f"n_resp={len(c.received)} err={c.error} t_end={getattr(c, 't_end', None)}")
        for inv in self.invocations:
            self.trace.append(f"invocation {inv['route']} n_req={len(inv['reqs'])} produced={inv['produced']} at={inv['at']:g}")

    # ---- oracle ----------------------------------------------------------------------------------
    def _oracle(self):
        for inv in self.invocations:
            if inv.get("by") != "served":
                raise Violation("C11.H1", "handled-by-another-instance",
                                f"{inv['route']}: the call was handled by another object of the service class (one created "
                                f"earlier and only asked for its routes), not by the instance the server was given")
        strict, relaxed = [], []
        for c in self.calls:
            if c.outcome == "not-started":
                continue
            hit_by_loss = self.lost_at is not None and (c.t_end is None or c.t_end >= self.lost_at)
            if c.outcome == "cancelled":
                c.fault = "cancelled"
            elif hit_by_loss:
                c.fault = "connection-lost"
            plan = c.expected_plan
            as_planned = (c.outcome == "ok" and plan.error is None) or \
                         (c.outcome == "grpc-error" and (plan.error is not None and c.overridden and c.error[0] == plan.error[0]
                                                         or not c.overridden and c.error[0] == Status.UNIMPLEMENTED))
            if c.fault is None or (as_planned and c.fault == "expiring-deadline"):
                strict.append(c)
            else:
                relaxed.append(c)
        for c in strict:       # exact matches first, so that a relaxed call cannot steal an invocation
            self._oracle_strict(c)
        # interrupted calls: a handler may have seen only a prefix of the request stream.  Attribute the
        # remaining invocations to them by a maximum bipartite matching (invocation -> call).
        free = [inv for inv in self.invocations if not inv["matched"]]
        owner: Dict[int, int] = {}        # index in relaxed -> index in free

        def edge(inv, c):
            return inv["route"] == c.md.route and inv["reqs"] == c.req_bytes[:len(inv["reqs"])]

        def augment(i, seen):
            for j, c in enumerate(relaxed):
                if j in seen or not edge(free[i], c):
                    continue
                seen.add(j)
                if j not in owner or augment(owner[j], seen):
                    owner[j] = i
                    return True
            return False
        for i in range(len(free)):
            augment(i, set())
        for j, c in enumerate(relaxed):
            inv = free[owner[j]] if j in owner else None
            self._oracle_faulted(c, inv)
        # H1: no invocation without a call
        for inv in self.invocations:
            if not inv["matched"]:
                raise Violation("C11.H1", "spurious-invocation",
                                f"handler {inv['route']} was invoked with {len(inv['reqs'])} request(s) that no call sent")

    def _match_invocation(self, c: _Call, exact: bool = True):
        cands = [inv for inv in self.invocations if not inv["matched"] and inv["route"] == c.md.route]
        for inv in cands:
            if inv["reqs"] == c.req_bytes:
                return inv
        if not exact:
            for inv in cands:
                if inv["reqs"] == c.req_bytes[:len(inv["reqs"])]:
                    return inv
        return None

    def _oracle_strict(self, c: _Call):
        md = c.md
        plan = c.expected_plan
        where = f"call {c.idx} {md.route} ({c.kind}, {len(c.reqs)} request(s), source {c.src_kind})"
        if not c.overridden and md.client_streaming and c.outcome == "exception" and \
                c.error[0] in ("StreamClosedError", "StreamTerminatedError"):
            # The server answers UNIMPLEMENTED without reading the request stream; a caller that is
            # still sending then fails on its send side (grpclib behaviour, inherent race).  What the
            # statement demands is the server's answer: its trailers must carry UNIMPLEMENTED.
            if (md.route, Status.UNIMPLEMENTED) not in self.trailers_sent:
                raise Violation("C11.H3", "not-unimplemented",
                                f"{where}: not overridden, the caller's send side failed with {c.error} and the "
                                f"server never answered UNIMPLEMENTED (trailers: {self.trailers_sent})")
            self.trailers_sent.remove((md.route, Status.UNIMPLEMENTED))
            self.stats["probe:unimplemented-raced-with-request-stream"] += 1
            return
        if c.outcome == "exception":
            raise Violation("C11.H2", f"call-raised-{c.error[0]}", f"{where} raised {c.error[0]}: {c.error[1]}")
        if not c.overridden:
            if c.outcome != "grpc-error" or c.error[0] != Status.UNIMPLEMENTED:
                raise Violation("C11.H3", "not-unimplemented",
                                f"{where}: method is not overridden, expected UNIMPLEMENTED, got {c.outcome} {c.error} "
                                f"with {len(c.received)} response(s)")
            if c.received:
                raise Violation("C11.H3", "response-from-unimplemented", f"{where}: got responses from a method nobody implemented")
            wrong = [inv for inv in self.invocations if inv["route"] == md.route]
            if wrong:
                raise Violation("C11.H1", "handler-invoked-for-unimplemented", f"{where}")
            self.stats["probe:unimplemented-call"] += 1
            self._check_server_view(c, where)
            return
        inv = self._match_invocation(c)
        if inv is None:
            others = [(i["route"], len(i["reqs"])) for i in self.invocations if not i["matched"]]
            same_route = [i for i in self.invocations if i["route"] == md.route and not i["matched"]]
            if same_route:
                raise Violation("C11.H1", "request-differs",
                                f"{where}: the handler was invoked, but with other requests than sent: "
                                f"sent {[b.hex()[:40] for b in c.req_bytes]}, handler saw "
                                f"{[[b.hex()[:40] for b in i['reqs']] for i in same_route][:3]}")
            raise Violation("C11.H1", "handler-not-invoked",
                            f"{where}: no invocation of the handler for this RPC (outcome {c.outcome} {c.error}); "
                            f"unmatched invocations: {others}")
        inv["matched"] = True
        if not inv.get("types_ok", True):
            raise Violation("C11.H1", "request-type", f"{where}: handler received a request of another class")
        exp = plan.responses
        got = [bytes(r) for r in c.received]
        out_ok = all(type(r) is type(e) for r, e in zip(c.received, exp))
        if plan.error is None:
            if c.outcome != "ok":
                raise Violation("C11.H2", "unexpected-error",
                                f"{where}: handler returned normally but the caller got {c.outcome} {c.error}")
        else:
            if c.outcome != "grpc-error":
                raise Violation("C11.H4", "error-lost",
                                f"{where}: handler raised GRPCError{plan.error} but the caller got {c.outcome} with "
                                f"{len(c.received)} response(s)")
            if c.error[0] != plan.error[0] or c.error[1] != plan.error[1]:
                raise Violation("C11.H4", "error-differs",
                                f"{where}: handler raised GRPCError{plan.error}, caller saw {c.error}")
            self.stats["probe:handler-error-reached-caller"] += 1
        if got != [bytes(e) for e in exp] or not out_ok:
            raise Violation("C11.H2", "response-differs",
                            f"{where}: expected {len(exp)} response(s) {[short(e, 60) for e in exp][:4]}, "
                            f"received {len(got)}: {[short(r, 60) for r in c.received][:4]}")
        self._check_server_view(c, where)

    def _check_server_view(self, c: _Call, where: str, required: bool = True):
        """H5: the server-side view (grpclib's own RecvRequest event) of deadline and metadata."""
        cfg = c.cfg
        eff_md = "call" if cfg["call_md"] else (None if cfg.get("call_md_empty") else ("stub" if cfg["stub_md"] else None))
        timeout = cfg["call_timeout"] if cfg["call_timeout"] is not None else cfg["stub_timeout"]
        cands = []
        if timeout is not None:
            cands.append(c.t0 + timeout)
        if cfg["call_deadline"] is not None:
            cands.append(c.t0 + cfg["call_deadline"])
        elif cfg["stub_deadline"] is not None:
            cands.append(c.stub_t + cfg["stub_deadline"])
        exp_remaining = (min(cands) - c.t0) if cands else None
        evs = [e for e in self.recv_events if not e["matched"] and e["route"] == c.md.route]
        with_id = [e for e in evs if e["metadata"].get("x-call") == c.call_id]
        pool = with_id if with_id else [e for e in evs if "x-call" not in e["metadata"]]
        if not required and not pool:
            return                 # the interrupted call never reached the server
        if not required and eff_md is not None and not with_id:
            return
        if eff_md is not None and not with_id:
            raise Violation("C11.H5", "metadata-missing",
                            f"{where}: effective metadata is the {eff_md}-level one, but the server saw no request "
                            f"carrying it (server saw {[e['metadata'] for e in evs][:3]})")
        if not pool:
            raise Violation("C11.H1", "request-never-reached-server", f"{where}: the server has no RecvRequest for it")
        problems = []
        for e in pool:
            m = e["metadata"]
            if eff_md is None:
                if "x-level" in m:
                    problems.append(f"metadata {m} although none is effective")
                    continue
            else:
                other = "stub" if eff_md == "call" else "call"
                if m.get("x-level") != eff_md or f"x-{other}-only" in m or f"x-{eff_md}-only" not in m:
                    problems.append(f"metadata {m}, expected the {eff_md}-level one")
                    continue
                if m.get("x-blob-bin") != b"\x00\xff" + eff_md.encode():
                    problems.append(f"binary metadata value {m.get('x-blob-bin')!r} differs from what the {eff_md} level set")
                    continue
                want_multi = ([eff_md + "-1", eff_md + "-2", b"\x01" + eff_md.encode(), b"\x02" + eff_md.encode()]
                              if c.cfg["md_form"] == 1 else None)
                got_multi = m.get("x-multi*")
                if got_multi is not None:
                    # HTTP/2 lets a sender fold repeated TEXT headers into one comma-joined value
                    got_multi = [x for v in got_multi for x in (v.split(",") if isinstance(v, str) else [v])]
                if got_multi != want_multi:
                    problems.append(f"values of the repeated metadata keys arrived as {m.get('x-multi*')!r}, the caller's "
                                    f"{eff_md}-level pairs carry {want_multi!r}")
                    continue
            r = e["remaining"]
            if exp_remaining is None:
                if r is not None:
                    problems.append(f"deadline with {r:g}s remaining although neither timeout nor deadline is effective")
                    continue
            else:
                if r is None:
                    problems.append(f"no deadline, expected {exp_remaining:g}s remaining")
                    continue
                gran = 1.0 if exp_remaining > 10 else 0.001
                if not (exp_remaining - gran - 1e-6 <= r <= exp_remaining + 1e-6):
                    problems.append(f"deadline with {r:g}s remaining, expected {exp_remaining:g}s "
                                    f"(cfg stub_timeout={cfg['stub_timeout']} call_timeout={cfg['call_timeout']} "
                                    f"stub_deadline={cfg['stub_deadline']} call_deadline={cfg['call_deadline']})")
                    continue
            e["matched"] = True
            if cfg["call_timeout"] is not None and cfg["stub_timeout"] is not None:
                self.stats["probe:call-level-timeout-overrides-stub-level"] += 1
            if cfg["call_md"] and cfg["stub_md"]:
                self.stats["probe:call-level-metadata-overrides-stub-level"] += 1
            if cfg["call_deadline"] is not None and cfg["stub_deadline"] is not None:
                self.stats["probe:call-level-deadline-overrides-stub-level"] += 1
            return
        raise Violation("C11.H5", "server-sees-other-parameters", f"{where}: server saw {problems[:2]}")

    ALLOWED_STATUS = (Status.DEADLINE_EXCEEDED, Status.CANCELLED, Status.UNAVAILABLE, Status.UNKNOWN)
    ALLOWED_EXC = ("TimeoutError", "StreamTerminatedError", "StreamClosedError", "ConnectionResetError",
                   "ConnectionError", "ConnectionRefusedError", "ProtocolError", "CancelledError")

    def _oracle_faulted(self, c: _Call, inv):
        """The statement promises nothing about the outcome of an interrupted call.  What stays:
        the right handler at most once, received responses are a prefix of what the handler
        produces, and the failure surfaces as a time-out / cancellation / transport error."""
        md, plan = c.md, c.expected_plan
        where = (f"call {c.idx} {md.route} ({c.kind}, {len(c.reqs)} request(s), source {c.src_kind}, "
                 f"fault {c.fault})")
        self.stats[f"probe:faulted-call:{c.fault}"] += 1
        if inv is not None:
            inv["matched"] = True
            if not c.overridden:
                raise Violation("C11.H1", "handler-invoked-for-unimplemented", where)
        exp = [bytes(e) for e in plan.responses]
        got = [bytes(r) for r in c.received]
        if got != exp[:len(got)]:
            raise Violation("C11.H2", "faulted-call-received-foreign-response",
                            f"{where}: received {[short(r, 60) for r in c.received][:4]} which is not a prefix of "
                            f"what the handler produces {[short(e, 60) for e in plan.responses][:4]}")
        # if the request did reach the server, the server must have seen the effective parameters
        self._check_server_view(c, where, required=False)
        if c.outcome in ("cancelled", "abandoned", "ok"):
            return
        if c.outcome == "grpc-error":
            ok = list(self.ALLOWED_STATUS)
            if plan.error is not None:
                ok.append(plan.error[0])
            if not c.overridden:
                ok.append(Status.UNIMPLEMENTED)
            if c.error[0] not in ok:
                raise Violation("C11.H4", "faulted-call-foreign-status",
                                f"{where}: failed with status {c.error}, expected one of {[x.name for x in ok]}")
            return
        if c.outcome == "exception" and c.error[0] in self.ALLOWED_EXC:
            return
        raise Violation("C11.H2", f"faulted-call-raised-{c.error[0] if c.error else c.outcome}",
                        f"{where}: surfaced as {c.outcome} {c.error}")


class GrpcSim(Simulator):
    isolate_runs = True
    name = "grpcsim"
    property_id = "C11"
    level = "exploration"
    crash_rule = "C11.H2"
    rules = RULES
    recursion_headroom = 900
    gc_every = 10
    generation_rule = ("Code is generated at check time by the working tree's plugin for a frozen corpus (3 own proto trees: "
                       "all four cardinalities, names needing re-casing, same method names in two services, same service "
                       "name in two packages, two files sharing one package, cross-package and well-known request/response types; 10 service cases of "
                       "/repo/tests/inputs), plus seeded generated service files (sim/svcgen.py: 6 in the quick tier, 48 in the thorough "
                       "tier; 1-2 services x 1-5 methods, random cardinalities, awkward names, nested / sibling-package / well-known "
                       "types). Each run draws a case, which methods the server overrides, 1-4 client tasks x "
                       "1-3 calls multiplexed on one channel, request values (occasionally > 64 KiB), request-stream length "
                       "0-4 and source kind (list / tuple / generator / iterator / async generator / AsyncChannel fed by another task), the eight-way "
                       "stub-level x call-level timeout/deadline/metadata choice, handler and client pauses, and per "
                       "transport write a latency and a TCP re-segmentation.")
    nontrivial_rule = "at least two calls were issued, or a streaming call."
    components_real = ["betterproto plugin + templates (generated Stub/Base)", "betterproto ServiceStub, ServiceBase, AsyncChannel",
                       "grpclib client, server, protocol, events", "h2, hpack", "protoc (grpc_tools), jinja2",
                       "CPython asyncio Task/Future/Queue"]
    components_stub = ["event-loop scheduler, selector and clock (SimLoop)", "time.monotonic as seen by grpclib",
                       "TCP connection (SimNet/SimTransport)", "ruff (identity filter; formatting only)"]
    assumptions = ["HTTP/2 runs on a reliable FIFO byte stream: the transport never reorders, drops or duplicates",
                   "schedules are limited to P0/P1 (realisable on a stock loop); P2 would reorder grpclib/h2 internals",
                   "Struct/Value/ListValue request/response types are not driven by the generic value generator",
                   "handlers consume the whole request stream before raising"]
    tiers = {
        "quick": dict(runs=24000, chunk=100, wall_cap=300, det_sample=int(__import__("os").environ.get("VERIF_DET_SAMPLE", "120"))),
        "thorough": dict(runs=400000, chunk=200, wall_cap=1500, det_sample=1000),
    }
    faults_enabled = True
    expected_probes = ["probe:unimplemented-call", "probe:handler-error-reached-caller",
                       "probe:call-level-timeout-overrides-stub-level", "probe:call-level-metadata-overrides-stub-level",
                       "probe:call-level-deadline-overrides-stub-level", "probe:request-stream-from-AsyncChannel",
                       "probe:message-larger-than-h2-window", "probe:tcp-resegmented-writes", "probe:ping-pong-bidi-call",
                       "probe:second-instance-of-the-service-class", "probe:metadata-pairs-with-a-repeated-key"]

    def __init__(self):
        self.generated = []
        self.scratch = None
        self.cases: Dict[str, gen.Case] = {}
        self.case_names: List[str] = []
        self.gen_failed: Dict[str, str] = {}
        self._own_scratch = False

    n_generated = {"quick": 6, "thorough": 48}

    def prepare(self, tier):
        import hashlib as _h
        base = int(os.environ.get("VERIF_GEN_SEED", getattr(self, "verif_seed", 0)))
        n = int(os.environ.get("VERIF_GEN_CASES", self.n_generated.get(tier, 6)))
        self.generated = [(f"g{i:03d}", int.from_bytes(_h.sha256(f"svc:{base}:{i}".encode()).digest()[:6], "big"))
                          for i in range(n)]
        self.scratch, self.gen_failed = gen.generate_corpus(generated=self.generated)
        self._own_scratch = True
        self._load()
        self.prepared_state = {"scratch": self.scratch, "failed": self.gen_failed, "generated": self.generated}

    def adopt(self, state):
        self.scratch = state["scratch"]
        self.gen_failed = state["failed"]
        self.generated = [tuple(x) for x in state.get("generated", [])]
        self._own_scratch = False
        self._load()

    def _load(self):
        names = [c for c, _ in gen.corpus() if c not in self.gen_failed]
        names += [n for n, _ in self.generated if n not in self.gen_failed]
        self.import_failed: Dict[str, str] = {}
        self.cases = {}
        gen_dir = os.path.join(self.scratch, "gen")
        import sys
        from . import engine as _engine
        if gen_dir not in _engine.EXTRA_CODE_ROOTS:
            _engine.EXTRA_CODE_ROOTS.append(gen_dir)     # an exception out of generated code is the plugin's doing
        if gen_dir not in sys.path:
            sys.path.insert(0, gen_dir)
        for n in names:
            try:
                case = gen.Case(self.scratch, n)
                for sd in case.services:
                    stub, base = case.stub_and_base(sd)
                    gen.methods_for(stub, sd)
                    gen.methods_for(base, sd)
                    for m in sd.methods:
                        if m.input_type not in SKIP_TYPES:
                            case.message_class(m.input_type)
                        if m.output_type not in SKIP_TYPES:
                            case.message_class(m.output_type)
                self.cases[n] = case
            except Exception as e:  # noqa: BLE001
                self.import_failed[n] = f"{type(e).__name__}: {e}"
        self.case_names = sorted(self.cases)

    def cleanup(self):
        if self._own_scratch:
            gen.cleanup(self.scratch)

    def execute(self, tape, trace, stats):
        broken = dict(self.gen_failed)
        broken.update(self.import_failed)
        if broken:
            name = sorted(broken)[0]
            raise Violation("C11.G1", f"corpus-case-broken:{name}",
                            f"corpus case {name} no longer generates/imports with the working tree's plugin: "
                            f"{broken[name][-400:]}")
        return _Run(self, tape, trace, stats).go()

    def extra_evidence(self):
        return dict(corpus_cases=self.case_names, generated_service_files=len(self.generated),
                    services=sum(len(c.services) for c in self.cases.values()),
                    methods=sum(len(s.methods) for c in self.cases.values() for s in c.services))
