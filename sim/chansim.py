"""chansim — C12: AsyncChannel exactly-once ordered delivery, no stranded receiver.

Real code: betterproto.grpc.util.async_channel.AsyncChannel, ServiceStub._send_messages,
CPython asyncio Task/Future/Queue/wait_for.  Simulated: the event loop's scheduler and clock.
"""
from __future__ import annotations

import asyncio
import collections
import os
from typing import Any, Dict, List, Optional, Tuple

from . import repo  # noqa: F401  (puts the tree under test on sys.path)
from .engine import Simulator, Violation, _raised_in_code_under_test as raised_in_code_under_test
from .simloop import P0, P1, P2, Budget, SimLoop

from betterproto.grpc.util.async_channel import AsyncChannel, ChannelClosed, ChannelDone
from betterproto.grpc.grpclib_client import ServiceStub

MS = 1.0 / 1024  # dyadic "millisecond"

RULES = {
    "C12.R1": "no item is received twice or invented",
    "C12.R2": "each item whose send completed before the channel was closed is received by exactly one receiver",
    "C12.R3": "items from one sender are received in the order sent",
    "C12.R4": "once the channel is closed every blocked or future receive / iteration terminates "
              "(None, ChannelDone or end of iteration); no end-of-channel is reported before close",
    "C12.R5": "every send invoked after close raises ChannelClosed (and delivers nothing)",
    "C12.R6": "cancelling or timing out a blocked receiver surfaces as that cancellation / timeout "
              "and leaves the channel usable with no item lost",
}


def from_code(e: BaseException) -> bool:
    """The exception comes out of the code under test: its innermost frame is in the tree under test or in
    a library that tree called (asyncio.Queue raising QueueFull inside close(), say) - anywhere but /verif."""
    return raised_in_code_under_test(e) or _from_stdlib(e)


def _from_stdlib(e: BaseException) -> bool:
    """True if the innermost frame of the traceback is outside /verif (asyncio, queue, ... called by the code
    under test): such an exception is the code's behaviour, not a harness bug."""
    import os
    tb = e.__traceback__
    last = None
    while tb is not None:
        last = tb
        tb = tb.tb_next
    if last is None:
        return False
    here = os.path.dirname(os.path.abspath(__file__))
    return not os.path.abspath(last.tb_frame.f_code.co_filename).startswith(here)


class _TolerantFake:
    """Base of the recording fakes handed to library code: any further (async) method of the real grpclib
    stream / channel that a refactored library might call is a harmless no-op instead of an AttributeError
    that would be blamed on the code under test."""

    def __getattr__(self, name):
        if name.startswith("__"):
            raise AttributeError(name)

        async def _noop(*a, **k):
            return None
        return _noop


class Tok(tuple):
    """An item: (sender, k).  Every other one is FALSY (like an all-default protobuf message, which is
    what really travels through a request channel) - an item must never be judged by its truth value."""
    __slots__ = ()

    def __bool__(self) -> bool:
        return self[1] % 2 == 1


class _Run:
    def __init__(self, tape, trace, stats):
        self.tape = tape
        self.trace = trace
        self.stats = stats
        self.seq = 0
        self.events: List[Tuple[int, str, str, str, Any]] = []
        self.policy = tape.weighted([2, 2, 1], "policy")
        if os.environ.get("VERIF_C12_POLICIES"):          # experiment knob: restrict the policy set
            allowed = [int(x) for x in os.environ["VERIF_C12_POLICIES"].split(",")]
            self.policy = allowed[self.policy % len(allowed)]
        self.loop = SimLoop(tape, self.policy, max_steps=20000, max_time=10000.0)
        self.loop.stats = stats
        self.ch: Optional[AsyncChannel] = None
        self.recv_tasks: Dict[str, asyncio.Task] = {}
        self.send_tasks: Dict[str, asyncio.Task] = {}
        self.end: Dict[str, str] = {}          # receiver -> how it ended
        self.in_op: Dict[str, Optional[str]] = {}
        self.injected_cancel: set = set()
        self._iters: Dict[str, Any] = {}
        self.end_obs: List[Tuple[int, str, bool]] = []   # (seq, actor, a cancelled-but-not-yet-run receiver existed)
        self.scripted_end_seq: Optional[int] = None   # everything after this event is the harness draining
        self.sf_calls: List[Dict[str, Any]] = []  # one record per send_from call of a sender actor
        self.must_surface_cancel: set = set()     # receivers cancelled while truly blocked in the channel
        self.direct_receivers: set = set()        # receivers calling receive() / __anext__ / async-for themselves
        self.close_seq: Optional[int] = None   # seq of the first close() the harness itself invoked
        self.close_ret_seq: Optional[int] = None
        self.closed_seen: Optional[int] = None  # seq of the first event at which ch.closed() was observed True
        self.first_closer: Optional[str] = None
        self.sent_before_own_close: set = set()
        self.sf_items: set = set()             # items that travel through send_from (judged per call)
        self.cfg_line = ""

    # -- recording ---------------------------------------------------------------------------
    def ev(self, actor: str, kind: str, op: str, detail: Any = None) -> int:
        if op == "recv" and not (isinstance(detail, tuple) and len(detail) == 2
                                 and isinstance(detail[0], str) and isinstance(detail[1], int)):
            detail = f"<foreign {type(detail).__name__}>"   # never let an address reach the trace
        self.seq += 1
        if self.closed_seen is None and self.ch is not None:
            try:
                if self.ch.closed():
                    self.closed_seen = self.seq       # the flag flipped before this event was recorded
            except Exception:  # noqa: BLE001
                pass
        self.events.append((self.seq, actor, kind, op, detail))
        if (kind == "raise" and detail in ("ChannelDone", "StopAsyncIteration")) or \
                (kind == "ret" and op in ("receive", "anext", "iterate-end", "stream.end") and detail is None):
            self.end_obs.append((self.seq, actor, self._cancel_pending()))
        return self.seq

    def _cancel_pending(self) -> bool:
        """Some receiver-side task has been cancelled (by anybody) or has timed out, and has not run since."""
        for t in list(self.recv_tasks.values()):
            try:
                if t.done():
                    continue
                if getattr(t, "_must_cancel", False):
                    return True
                fw = getattr(t, "_fut_waiter", None)
                if fw is not None and fw.cancelled():
                    return True
            except Exception:  # noqa: BLE001
                pass
        return False

    async def pause(self, label: str = "pause") -> None:
        k = self.tape.draw(4, label)
        if k == 0:
            return
        if k == 1:
            await asyncio.sleep(0)
        elif k == 2 or self.policy != P1:
            await asyncio.sleep((1 + self.tape.draw(3, "dur")) * MS)
        else:
            await self.loop.external()

    # -- actors ------------------------------------------------------------------------------
    def do_close(self, actor: str) -> None:
        try:
            if self.ch.closed():
                # the statement says nothing about closing twice: the harness does not do it
                self.ev(actor, "note", "close-skipped-already-closed")
                return
        except Exception:  # noqa: BLE001
            pass
        s = self.ev(actor, "inv", "close")
        if self.first_closer is None:
            self.first_closer = actor
        if self.close_seq is None:
            self.close_seq = s
            if any(v in ("receive", "anext") for v in self.in_op.values()):
                self.stats["probe:close-with-receiver-inside-get"] += 1
            if any(v in ("send", "send_from") for v in self.in_op.values()):
                self.stats["probe:close-with-sender-in-flight"] += 1
        try:
            self.ch.close()
        except Exception as e:  # noqa: BLE001
            self.ev(actor, "raise", "close", type(e).__name__)
            raise Violation("C12.R4", f"close-raised-{type(e).__name__}", f"close() raised {e!r}")
        r = self.ev(actor, "ret", "close")
        if self.close_ret_seq is None:
            self.close_ret_seq = r

    def _maybe_cancel_after_send(self, a: str, cfg) -> None:
        tgt = cfg.get("cancel_after_send")
        if tgt is None:
            return
        cfg["cancel_after_send"] = None
        self._cancel_receiver(a, tgt)

    def _cancel_receiver(self, by: str, tgt: str) -> None:
        t = self.recv_tasks.get(tgt)
        if t is None or t.done():
            return
        blocked = self.in_op.get(tgt) in ("receive", "anext", "iterate")
        fw = getattr(t, "_fut_waiter", None)
        window = blocked and fw is not None and fw.done()
        self.injected_cancel.add(tgt)
        self.ev(by, "fault", "cancel", tgt)
        if blocked and fw is not None and not fw.done() and tgt in self.direct_receivers:
            # truly blocked (its wake-up has not been scheduled): asyncio will throw CancelledError into
            # receive() / __anext__ whatever happens next, and the statement says it must surface
            self.must_surface_cancel.add(tgt)
        t.cancel()
        if blocked:
            self.stats["fault:cancel-blocked-receiver"] += 1
        else:
            self.stats["fault:cancel-receiver-outside-get"] += 1
        if window:
            self.stats["probe:cancel-landed-between-wakeup-and-resumption"] += 1

    async def sender(self, a: str, cfg) -> None:
        """One sender: a single send loop / send_from call, or - mixed - a send_from of the first items followed
        by plain sends of the rest (or the other way round); optionally it closes the channel itself as soon as
        its last call has returned, without yielding in between (the README idiom)."""
        items = cfg["items"]
        if cfg.get("mixed") is not None and len(items) >= 2 and not cfg["close"]:
            k = 1 + cfg["mixed"] % (len(items) - 1)
            first, rest = items[:k], items[k:]
            sf_mode = cfg["mode"] or 3
            a_mode, b_mode = (sf_mode, 0) if cfg["mixed_order"] == 0 else (0, sf_mode)
            self.stats["probe:sender-mixes-send-and-send_from"] += 1
            await self._send_segment(a, dict(cfg, items=first, mode=a_mode))
            await self._send_segment(a, dict(cfg, items=rest, mode=b_mode))
        else:
            await self._send_segment(a, cfg)
        if cfg.get("then_close"):
            self.stats["probe:sender-closes-right-after-its-last-send"] += 1
            self.do_close(a)

    async def _send_segment(self, a: str, cfg) -> None:
        ch = self.ch
        items = cfg["items"]
        mode = cfg["mode"]
        if mode == 0:
            for it in items:
                await self.pause()
                self.in_op[a] = "send"
                self.ev(a, "inv", "send", it)
                try:
                    await ch.send(it)
                except ChannelClosed:
                    self.ev(a, "raise", "send", (it, "ChannelClosed"))
                except asyncio.CancelledError:
                    raise
                except Exception as e:  # noqa: BLE001
                    if not from_code(e):
                        raise
                    self.ev(a, "raise", "send", (it, type(e).__name__))
                else:
                    self.ev(a, "ret", "send", it)
                    self._maybe_cancel_after_send(a, cfg)
                finally:
                    self.in_op[a] = None
            return
        # ---- send_from.  What the harness can OBSERVE of it: which items the implementation has pulled
        # from the source so far, and the return / exception of the call.  An implementation may pull
        # lazily, prefetch or materialise the source first, so a pulled item is only "invoked"; every
        # pulled item counts as COMPLETED when the call returns normally - never earlier.
        run = self
        pulled: List[Any] = []
        self.sf_items.update(items)

        def pull(k):
            it = items[k]
            pulled.append(it)
            run.ev(a, "inv", "send", it)
            return it

        class Src:
            k = 0

            def __iter__(self):
                return self

            def __next__(self):
                if self.k == len(items):
                    raise StopIteration
                self.k += 1
                return pull(self.k - 1)

        class ASrc:
            k = 0

            def __aiter__(self):
                return self

            async def __anext__(self):
                await run.pause("src-pause")
                if self.k == len(items):
                    raise StopAsyncIteration
                self.k += 1
                return pull(self.k - 1)

        def _gen():
            for k in range(len(items)):
                yield pull(k)

        async def _agen():
            for k in range(len(items)):
                await run.pause("src-pause")
                yield pull(k)

        await self.pause()
        if mode == 1:
            src, kind = Src(), "iterator"
        elif mode == 2:
            src, kind = ASrc(), "async-iterator"
        elif mode == 3:
            src, kind = list(items), "list"
        elif mode == 4:
            src, kind = tuple(items), "tuple"
        elif mode == 5:
            src, kind = _gen(), "generator"
        else:
            src, kind = _agen(), "async-generator"
        if mode in (3, 4):
            for k in range(len(items)):       # a real list / tuple cannot report pulls: all invoked up front
                pull(k)
        closing = cfg["close"]
        self.in_op[a] = "send_from"
        call = dict(actor=a, items=list(items), outcome=None)
        call["inv"] = self.ev(a, "inv", "send_from", (len(items), closing, kind))
        self.sf_calls.append(call)
        try:
            await ch.send_from(src, close=closing)
        except ChannelClosed:
            call["outcome"] = "ChannelClosed"
            # whatever was pulled before the rejection may or may not have been put (an implementation that
            # checks per item has put the earlier ones): the outcome of the individual items is unknown,
            # the call as a whole is what gets judged
            self.ev(a, "raise", "send_from", "ChannelClosed")
        except asyncio.CancelledError:
            raise
        except Exception as e:  # noqa: BLE001
            if not from_code(e):
                raise
            self.ev(a, "raise", "send_from", type(e).__name__)
        else:
            own_close = closing and self.first_closer is None
            for it in pulled:
                self.ev(a, "ret", "send", (it if not own_close else it))
            if own_close:
                # close=True: the call closes the channel itself, after its last put - so every item of
                # this call was sent before that close, whatever the event order looks like from outside
                self.first_closer = a
                self.sent_before_own_close.update(pulled)
                self.ev(a, "note", "closed-by-send_from")
            self.ev(a, "ret", "send_from", len(pulled))
            self._maybe_cancel_after_send(a, cfg)
        finally:
            self.in_op[a] = None

    async def receiver(self, a: str, cfg) -> None:
        ch = self.ch
        mode = cfg["mode"]
        if mode not in (4, 5):
            self.direct_receivers.add(a)
        try:
            if mode == 4:
                await self._stub_consumer(a)
                return
            if mode == 5:
                await self._stream_stream_consumer(a)
                return
            if mode == 1:
                await self.pause()
                self.in_op[a] = "iterate"
                self.ev(a, "inv", "iterate")
                n = 0
                async for x in ch:
                    self.ev(a, "ret", "recv", x)
                    n += 1
                    if n > 40:
                        self.end[a] = "runaway"
                        return
                    self.in_op[a] = None
                    await self.pause()
                    self.in_op[a] = "iterate"
                self.in_op[a] = None
                self.ev(a, "ret", "iterate-end")
                self.end[a] = "end-of-iteration"
                return
            timeouts_left = 2
            for _ in range(40):
                await self.pause()
                op = "receive" if mode in (0, 2) else "anext"
                self.in_op[a] = op
                self.ev(a, "inv", op)
                try:
                    coro = ch.receive() if op == "receive" else self._iter_of(a).__anext__()
                    if mode >= 2:
                        t = (1 + self.tape.draw(4, "timeout")) * MS
                        x = await asyncio.wait_for(coro, t)
                    else:
                        x = await coro
                except ChannelDone:
                    self.ev(a, "raise", op, "ChannelDone")
                    self.end[a] = "ChannelDone"
                    return
                except StopAsyncIteration:
                    self.ev(a, "raise", op, "StopAsyncIteration")
                    self.end[a] = "end-of-iteration"
                    return
                except asyncio.TimeoutError:
                    self.ev(a, "raise", op, "TimeoutError")
                    self.stats["fault:timeout-of-blocked-receiver"] += 1
                    timeouts_left -= 1
                    if timeouts_left <= 0 or self.tape.draw(2, "quit-after-timeout"):
                        self.end[a] = "timeout"
                        return
                    continue
                finally:
                    self.in_op[a] = None
                if x is None:
                    self.ev(a, "ret", op, None)
                    self.end[a] = "None"
                    return
                self.ev(a, "ret", "recv", x)
            self.end[a] = "runaway"
        except asyncio.CancelledError:
            self.ev(a, "raise", "actor", "CancelledError")
            self.end[a] = "cancelled" if a in self.injected_cancel else "error:CancelledError"
        except Exception as e:  # noqa: BLE001
            if not from_code(e):
                raise                      # the harness's own fault: surfaces as HARNESS, not as a verdict
            self.ev(a, "raise", "actor", f"{type(e).__name__}: {e}")
            self.end[a] = f"error:{type(e).__name__}"
        finally:
            self.in_op[a] = None

    async def _stub_consumer(self, a: str) -> None:
        run = self

        class FakeStream(_TolerantFake):
            async def send_message(self, m, end=False):
                run.ev(a, "ret", "recv", m)
                run.in_op[a] = None
                await run.pause()
                run.in_op[a] = "iterate"
                if end:
                    run.ev(a, "ret", "stream.end")

            async def end(self):
                run.ev(a, "ret", "stream.end")

        await self.pause()
        self.in_op[a] = "iterate"
        self.ev(a, "inv", "iterate", "_send_messages")
        class _NoChannel:
            pass
        # through an instance: works whether _send_messages is a staticmethod or a method
        await ServiceStub(_NoChannel())._send_messages(FakeStream(), self.ch)
        self.in_op[a] = None
        self.end[a] = "end-of-iteration"

    async def _stream_stream_consumer(self, a: str) -> None:
        """The real ServiceStub._stream_stream: it spawns _send_messages(stream, channel) as a task and
        cancels it when the response side fails - i.e. the library itself cancels a receiver that is
        blocked in the channel.  The grpclib channel/stream are recording fakes."""
        run = self
        t = self.tape
        n_resp = t.draw(3, "ss-responses")
        fail = t.draw(3, "ss-fail")           # 0: response side ends normally; 1-2: it raises

        class FakeStream(_TolerantFake):
            async def send_request(self):
                pass

            async def send_message(self, m, end=False):
                run.ev(a, "ret", "recv", m)
                await run.pause("ss-send-pause")

            async def end(self):
                run.ev(a, "ret", "stream.end")
                run.end[a] = "end-of-iteration"

            async def recv_message(self):
                it = getattr(self, "_it", None)
                if it is None:
                    it = self._it = self._responses()
                try:
                    return await it.__anext__()
                except StopAsyncIteration:
                    return None

            def __aiter__(self):
                return self._responses()

            async def _responses(self):
                for k in range(n_resp):
                    await run.pause("ss-resp-pause")
                    yield ("resp", k)
                await run.pause("ss-resp-pause")
                if fail:
                    run.injected_cancel.add(a)
                    run.stats["fault:stream_stream-cancels-its-sender-task"] += 1
                    run.ev(a, "fault", "response-side-fails")
                    raise ConnectionResetError("response side failed (injected)")

        class Ctx(_TolerantFake):
            async def __aenter__(self):
                return FakeStream()

            async def __aexit__(self, *exc):
                return False

        class FakeChannel(_TolerantFake):
            def request(self, *args, **kw):
                return Ctx()

        await self.pause()
        self.in_op[a] = "iterate"
        self.ev(a, "inv", "iterate", "_stream_stream")
        stub = ServiceStub(FakeChannel())

        def adopt_sender():
            # the library's own sender task is the real receiver on the channel: track it, so that a
            # stranded one is noticed at quiescence (the response side may end before it does)
            if a + "-sender" in self.recv_tasks:
                return
            claimed = list(self.recv_tasks.values())
            cands = [tk for tk in asyncio.all_tasks()
                     if getattr(tk.get_coro(), "__qualname__", "").endswith("_send_messages") and tk not in claimed]
            if cands:
                cands.sort(key=lambda tk: tk.get_name())      # sim-task-<n>: creation order, not identity
                self.recv_tasks[a + "-sender"] = cands[0]
        try:
            async for _ in stub._stream_stream("/x/Y", self.ch, object, object):
                adopt_sender()
            adopt_sender()
        except ConnectionResetError:
            adopt_sender()
            self.in_op[a] = None
            self.end[a] = "cancelled"          # the sender task was cancelled by the library
            return
        self.in_op[a] = None

    async def closer(self, cfg) -> None:
        if cfg["when"] == 0:
            # the idiomatic closer: wait for the senders, then close
            for t in list(self.send_tasks.values()):
                try:
                    await asyncio.shield(t)
                except Exception:  # noqa: BLE001
                    pass
            await self.pause()
        else:
            for _ in range(cfg["when"]):
                await self.pause()
                await asyncio.sleep(0)
        self.do_close("closer")

    async def canceller(self, cfg) -> None:
        for _ in range(cfg["after"]):
            await self.pause()
            await asyncio.sleep(0)
        self._cancel_receiver("canceller", cfg["target"])

    async def late_sender(self, cfg) -> None:
        # sends after close() has returned: must raise ChannelClosed
        for _ in range(30):
            if self.close_ret_seq is not None:
                break
            await asyncio.sleep(MS)
        else:
            return
        await self.pause()
        a = "late"
        it = Tok(("late", 0))
        if cfg["mode"] == 0:
            self.ev(a, "inv", "send", it)
            try:
                await self.ch.send(it)
            except ChannelClosed:
                self.ev(a, "raise", "send", (it, "ChannelClosed"))
            except Exception as e:  # noqa: BLE001
                self.ev(a, "raise", "send", (it, type(e).__name__))
            else:
                self.ev(a, "ret", "send", it)
        else:
            self.sf_items.add(it)
            self.ev(a, "inv", "send", it)
            self.ev(a, "inv", "send_from", (1, False, "list"))
            try:
                await self.ch.send_from([it])
            except ChannelClosed:
                self.ev(a, "raise", "send_from", "ChannelClosed")
            except Exception as e:  # noqa: BLE001
                if not from_code(e):
                    raise
                self.ev(a, "raise", "send_from", type(e).__name__)
            else:
                self.ev(a, "ret", "send", it)
                self.ev(a, "ret", "send_from", 1)

    async def drain(self, a: str) -> None:
        ch = self.ch
        use_iter = self.tape.draw(2, "drain-kind")
        try:
            for _ in range(40):
                if use_iter:
                    self.ev(a, "inv", "anext")
                    try:
                        x = await self._iter_of(a).__anext__()
                    except StopAsyncIteration:
                        self.ev(a, "raise", "anext", "StopAsyncIteration")
                        self.end[a] = "end-of-iteration"
                        return
                else:
                    self.ev(a, "inv", "receive")
                    try:
                        x = await ch.receive()
                    except ChannelDone:
                        self.ev(a, "raise", "receive", "ChannelDone")
                        self.end[a] = "ChannelDone"
                        return
                    if x is None:
                        self.ev(a, "ret", "receive", None)
                        self.end[a] = "None"
                        return
                self.ev(a, "ret", "recv", x)
            self.end[a] = "runaway"
        except asyncio.CancelledError:
            self.end[a] = "error:CancelledError"
        except Exception as e:  # noqa: BLE001
            self.ev(a, "raise", "actor", f"{type(e).__name__}: {e}")
            self.end[a] = f"error:{type(e).__name__}"

    # -- the run -----------------------------------------------------------------------------
    def go(self):
        tape = self.tape
        loop = self.loop
        asyncio.set_event_loop(loop)
        try:
            return self._go(tape, loop)
        except Budget as b:
            # a run that does not settle within the step / virtual-time budget is not a verdict on the code
            raise RuntimeError(f"BUDGET: simulated world did not settle: {b}")
        finally:
            self._dump_trace()
            loop.finish()
            asyncio.set_event_loop(None)

    def _dump_trace(self):
        names = {P0: "P0 fifo+ties", P1: "P1 arrivals", P2: "P2 permute"}
        self.trace.append(f"policy={names[self.policy]} {self.cfg_line}")
        for (s, a, k, op, d) in self.events:
            self.trace.append(f"{s:3d} {a:9s} {k:5s} {op} {'' if d is None else d}")
        for a, e in sorted(self.end.items()):
            self.trace.append(f"end {a}: {e}")

    def _go(self, tape, loop):
        buf = tape.draw(3, "buffer")
        n_send = 1 + tape.draw(2, "n_send")
        n_recv = 1 + tape.draw(3, "n_recv")
        scfg = []
        for s in range(n_send):
            mode = tape.draw(7, "send-mode")
            n = 1 + tape.draw(3, "n_items")
            close = bool(tape.draw(3, "send_from-close") == 2) if mode else False
            scfg.append(dict(mode=mode, items=[Tok((f"s{s}", k)) for k in range(n)], close=close,
                             cancel_after_send=None,
                             mixed=(tape.draw(4, "mixed-split") if tape.draw(5, "mixed-sender?") == 4 else None),
                             mixed_order=tape.draw(2, "mixed-order"),
                             then_close=(tape.draw(5, "then-close?") == 4 and not close)))
        # the two library-internal consumers are exercised only while they exist under these names
        w_send = 2 if callable(getattr(ServiceStub, "_send_messages", None)) else 0
        w_ss = 2 if (w_send and callable(getattr(ServiceStub, "_stream_stream", None))) else 0
        rcfg = [dict(mode=tape.weighted([3, 3, 2, 2, w_send, w_ss], "recv-mode")) for _ in range(n_recv)]
        closer = dict(when=tape.draw(5, "closer"))       # 0 idiomatic, 1..3 arbitrary, 4 never
        canc = tape.draw(4, "canceller")                  # 0 none, 1-2 at a drawn point, 3 right after a send
        ccfg = None
        if canc in (1, 2):
            ccfg = dict(after=tape.draw(4, "cancel-after"), target=f"r{tape.draw(n_recv, 'cancel-target')}")
        elif canc == 3:
            scfg[tape.draw(n_send, "cancel-sender")]["cancel_after_send"] = f"r{tape.draw(n_recv, 'cancel-target')}"
        late = tape.draw(3, "late-sender")                # 0 none, 1 send, 2 send_from
        self.cfg_line = (f"buffer={buf} senders={[(c['mode'], len(c['items']), c['close']) for c in scfg]} "
                         f"receivers={[c['mode'] for c in rcfg]} closer={closer['when']} "
                         f"canceller={canc}:{ccfg} late={late}")

        async def boot():
            self.ch = AsyncChannel(buffer_limit=buf)
        loop.run_until_complete(boot())

        mk = loop.create_task
        # creation order is part of the schedule
        specs = [("s", i) for i in range(n_send)] + [("r", i) for i in range(n_recv)]
        order = []
        while specs:
            order.append(specs.pop(tape.draw(len(specs), "spawn-order")))
        for kind, i in order:
            if kind == "s":
                self.send_tasks[f"s{i}"] = mk(self.sender(f"s{i}", scfg[i]), name=f"s{i}")
            else:
                self.recv_tasks[f"r{i}"] = mk(self.receiver(f"r{i}", rcfg[i]), name=f"r{i}")
        aux = []
        if closer["when"] != 4:
            aux.append(mk(self.closer(closer), name="closer"))
        if ccfg:
            aux.append(mk(self.canceller(ccfg), name="canceller"))
        if late:
            aux.append(mk(self.late_sender(dict(mode=late - 1)), name="late"))

        loop.run_sim()
        self.scripted_end_seq = self.ev("sim", "note", "quiescent", f"t={loop.time() / MS:g}ms")

        # -- scripted phase over: a closed channel must not have stranded anybody
        closed_in_script = bool(self.ch.closed())
        if closed_in_script:
            self._check_no_stranded("scripted phase")
        # -- drain phase
        if not closed_in_script:
            async def c():
                self.do_close("drain")
            loop.run_until_complete(c())
        rounds = 0
        while True:
            rounds += 1
            a = f"drain{rounds}"
            t = mk(self.drain(a), name=a)
            self.recv_tasks[a] = t
            loop.run_sim()
            self._check_no_stranded(f"drain round {rounds}")
            try:
                done = self.ch.done()
            except Exception as e:  # noqa: BLE001
                raise Violation("C12.R4", f"done-raised-{type(e).__name__}", repr(e))
            got_now = sum(1 for (_, a2, k2, op2, _) in self.events if a2 == a and k2 == "ret" and op2 == "recv")
            if done and (all(t.done() for t in self.send_tasks.values()) or got_now == 0):
                # done, and either every sender has finished or this round drained nothing: senders that
                # were parked on a full buffer at close() may stay parked (the statement is silent)
                break
            if rounds >= 12:
                raise Violation("C12.R4", "never-done",
                                "after close the channel never reports done although it is being drained")
        self.ev("sim", "note", "drained", f"rounds={rounds}")
        # one more receive on the finished channel: must terminate at once
        a = "post"
        t = mk(self.drain(a), name=a)
        self.recv_tasks[a] = t
        loop.run_sim()
        self._check_no_stranded("post-done receive")
        if self.end.get(a) in ("ChannelDone", "end-of-iteration"):
            self.stats["probe:receive-on-done-channel"] += 1
        # an actor of the harness that died of an exception is a harness failure, never silence
        for name, tk in list(self.send_tasks.items()) + [(t.get_name(), t) for t in aux]:
            if tk.done() and not tk.cancelled() and tk.exception() is not None:
                raise tk.exception()
        for name, tk in self.recv_tasks.items():
            if tk.done() and not tk.cancelled() and tk.exception() is not None:
                e = tk.exception()
                if name.endswith("-sender") and from_code(e):
                    # the library's own consumer task (_send_messages) died: its receiver side is judged
                    rule = "C12.R6" if self._had_fault() else "C12.R4"
                    raise Violation(rule, f"receiver-error:{type(e).__name__}",
                                    f"the library's sender task {name} ended with {type(e).__name__}: {e}")
                raise e
        self._oracle()
        return self._nontrivial(), loop.steps, loop.time()

    def _check_no_stranded(self, phase: str) -> None:
        for a, t in self.recv_tasks.items():
            if not t.done():
                raise Violation("C12.R4", "stranded-receiver",
                                f"{phase}: channel closed, world quiescent, receiver {a} still blocked "
                                f"in {self.in_op.get(a)}")

    def _nontrivial(self) -> bool:
        # some operation had events of another actor between its invocation and its return
        open_ops: Dict[str, int] = {}
        for (s, a, k, op, d) in self.events:
            if k == "inv":
                open_ops[a] = s
            elif k in ("ret", "raise") and a in open_ops:
                s0 = open_ops.pop(a)
                if any(b != a and b != "sim" for (s2, b, _, _, _) in self.events[s0:s - 1]):
                    return True
        return False

    # -- oracle over the history -------------------------------------------------------------
    def _oracle(self) -> None:
        sent_inv: Dict[Any, int] = {}
        sent_ret: Dict[Any, int] = {}
        sent_raise: Dict[Any, str] = {}
        raise_seq: Dict[Any, int] = {}
        recvd: Dict[Any, List[Tuple[int, str]]] = collections.defaultdict(list)
        # "the channel was closed": the first close() the harness invoked, or the first moment closed() was
        # observed True (a close performed inside send_from(close=True)) - whichever came first
        cands = [x for x in (self.close_seq, self.closed_seen) if x is not None]
        close_seq = min(cands) if cands else None
        cands = [x for x in (self.close_ret_seq, self.closed_seen) if x is not None]
        close_ret = min(cands) if cands else None
        self.close_ret_eff = close_ret
        for (s, a, k, op, d) in self.events:
            if op == "send_from" and k == "raise":
                if d != "ChannelClosed":
                    raise Violation("C12.R5", f"send_from-raised-{d}", f"{a}: send_from raised {d}")
                if close_seq is None or s < close_seq:
                    raise Violation("C12.R5", "ChannelClosed-before-close",
                                    f"{a}: send_from raised ChannelClosed at #{s}, before any close (#{close_seq})")
            if op == "send" and k == "inv":
                sent_inv[d] = s
            elif op == "send" and k == "ret":
                sent_ret[d] = s
            elif op == "send" and k == "raise":
                sent_raise[d[0]] = d[1]
                raise_seq[d[0]] = s
            elif op == "recv" and k == "ret":
                recvd[d].append((s, a))
        # R1
        for it, lst in recvd.items():
            if not (isinstance(it, tuple) and it in sent_inv):
                raise Violation("C12.R1", "invented", f"received {it!r} which nobody sent")
            if len(lst) > 1:
                raise Violation("C12.R1", "duplicate", f"item {it} received {len(lst)} times: {lst}")
        # R5, per send_from call: a call invoked after close returned raises ChannelClosed and delivers nothing
        if close_ret is not None:
            late_calls = [c for c in self.sf_calls if c["inv"] > close_ret]
            for (s, a, k, op, d) in self.events:       # the late sender's calls are recorded as events only
                if a == "late" and op == "send_from" and k == "inv" and s > close_ret:
                    late_calls.append(dict(actor=a, inv=s, items=[it for it in sent_inv if it[0] == "late"],
                                           outcome="ChannelClosed" if any(
                                               a2 == "late" and op2 == "send_from" and k2 == "raise"
                                               for (_, a2, k2, op2, _) in self.events) else None))
            for c in late_calls:
                if c["outcome"] != "ChannelClosed":
                    raise Violation("C12.R5", "send-after-close-accepted",
                                    f"{c['actor']}: send_from invoked at #{c['inv']} after close returned at #{close_ret} "
                                    f"did not raise ChannelClosed")
                leaked = [it for it in c["items"] if it in recvd]
                if leaked:
                    raise Violation("C12.R5", "rejected-send-delivered",
                                    f"{c['actor']}: send_from was rejected yet {leaked} delivered")
        # R5, per send
        for it, s in sent_inv.items():
            if it in self.sf_items:
                continue
            if close_ret is not None and s > close_ret and not self._in_send_from_started_before_close(it, s):
                if sent_raise.get(it) != "ChannelClosed":
                    raise Violation("C12.R5", "send-after-close-accepted",
                                    f"send of {it} invoked at #{s} after close returned at #{close_ret} "
                                    f"did not raise ChannelClosed ({sent_raise.get(it, 'returned')})")
                if it in recvd:
                    raise Violation("C12.R5", "rejected-send-delivered", f"{it} was rejected yet delivered")
        for it, why in sent_raise.items():
            if why != "ChannelClosed":
                raise Violation("C12.R5", f"send-raised-{why}", f"send of {it} raised {why}")
            # A send that was IN FLIGHT when close() came may be rejected or completed - the statement
            # is silent.  What it excludes is ChannelClosed from a channel nobody had closed yet.
            if close_seq is None or raise_seq[it] < close_seq:
                raise Violation("C12.R5", "ChannelClosed-before-close",
                                f"send of {it} raised ChannelClosed at #{raise_seq[it]}, before any close (#{close_seq})")
        # R6
        for a, e in self.end.items():
            if e.startswith("error:"):
                rule = "C12.R6" if (a in self.injected_cancel or self._had_fault()) else "C12.R4"
                raise Violation(rule, f"receiver-{e}",
                                f"receiver {a} ended with {e} (expected the injected cancellation / time-out, "
                                f"None, ChannelDone or end of iteration)")
            if e == "runaway":
                raise Violation("C12.R4", "runaway", f"receiver {a} never saw the end of a closed channel")
        for a in sorted(self.must_surface_cancel):
            if self.end.get(a) != "cancelled":
                raise Violation("C12.R6", "cancellation-swallowed",
                                f"receiver {a} was cancelled while blocked in the channel, yet it ended with "
                                f"{self.end.get(a)!r} instead of the CancelledError")
        # R4: end-of-channel only after close
        for (s, a, k, op, d) in self.events:
            if (k == "raise" and d in ("ChannelDone", "StopAsyncIteration")) or \
               (k == "ret" and op in ("receive", "anext", "iterate-end", "stream.end") and d is None):
                if close_seq is None or s < close_seq:
                    raise Violation("C12.R4", "end-before-close",
                                    f"{a} saw end of channel at #{s} before any close (#{close_seq})")
        # R2
        for it, s in sent_ret.items():
            if (s < close_seq or it in self.sent_before_own_close) and it not in recvd:
                sig = "lost-after-cancel-or-timeout" if self._had_fault() else "lost"
                rule = "C12.R6" if self._had_fault() else "C12.R2"
                raise Violation(rule, sig, f"send of {it} returned at #{s}, before close #{close_seq}, "
                                           f"but nobody ever received it")
        # R2, second half: "receivers that keep receiving until the channel is done" get every such item - if one
        # of the scripted receivers did see the end of the channel, no obliged item may have been left behind for
        # the harness's drain (the end was announced while items of completed sends were still to come)
        saw_end = sorted(a for a, e in self.end.items()
                         if a.startswith("r") and e in ("None", "ChannelDone", "end-of-iteration"))
        if saw_end and self.scripted_end_seq is not None:
            for it, s in sent_ret.items():
                if (s < close_seq or it in self.sent_before_own_close) and it in recvd:
                    rs, who = recvd[it][0]
                    if rs > self.scripted_end_seq and s < self.scripted_end_seq:
                        # done() announces the end as soon as there are as many waiting receivers as queued items - a
                        # prediction that fails when such a waiter is cancelled or times out (before or after the
                        # announcement) instead of taking its item.  That is the listed finding F14; it needs a cancelled
                        # or timed-out receiver-side task somewhere in the history (harness-injected or the library
                        # cancelling its own consumer), so WITHOUT one the symptom stays a violation.
                        sig = "left-behind-after-cancel-or-timeout" if self._had_fault() else "left-behind"
                        raise Violation("C12.R6" if self._had_fault() else "C12.R2", sig,
                                        f"send of {it} completed at #{s}, before the close; receiver(s) {saw_end} kept receiving "
                                        f"until they saw the end of the channel, yet the item only came out afterwards "
                                        f"(to {who} at #{rs}, the harness draining the channel)")
        # R3: per receiver, a sender's items arrive in the order sent.  With several receivers the order
        # of their *return events* is not what the statement fixes (an implementation that hands items
        # to waiting receivers directly lets a later receiver return first), so the global order is
        # only judged when a single receiver took everything.
        # The order clause belongs to the first sentence (senders, a closer, receivers that keep receiving); for a
        # cancelled / timed-out receiver the statement promises "surfaces, usable, nothing lost" - a channel that
        # hands items to waiting receivers cannot recall what another receiver took while a cancelled hand-off
        # was being returned.  So order is judged in histories without such a fault.
        by_recv: Dict[str, List[Tuple[int, Any]]] = collections.defaultdict(list)
        for it, lst in recvd.items():
            by_recv[lst[0][1]].append((lst[0][0], it))
        if self._had_fault():
            by_recv = collections.defaultdict(list)
            self.stats["recorded:order-not-judged-in-a-history-with-cancel-or-timeout"] += 1
        views = dict(by_recv)
        if len(by_recv) == 1:
            views["(all)"] = [x for v in by_recv.values() for x in v]
        for who, lst in views.items():
            last: Dict[str, int] = {}
            for s, it in sorted(lst):
                snd, k = it
                if last.get(snd, -1) > k:
                    raise Violation("C12.R3", "reordered",
                                    f"{snd}: item {k} received after item {last[snd]} (receiver {who})")
                last[snd] = k

    def _iter_of(self, a: str):
        """One iterator per receiver, obtained once - as `it = aiter(channel)` / `await anext(it)` does (the channel
        may be its own iterator or hand out a separate object)."""
        it = self._iters.get(a)
        if it is None:
            it = self._iters[a] = self.ch.__aiter__()
        return it

    def _had_fault(self) -> bool:
        """A blocked receiver was cancelled or timed out somewhere in the history - by the harness (fault events,
        TimeoutError) or by the code under test itself (the library cancels its own _send_messages task): derived
        from the state of the receiver-side tasks, not only from the harness's own markers."""
        if any(k == "fault" or (k == "raise" and d in ("TimeoutError", "CancelledError")) for (_, _, k, _, d) in self.events):
            return True
        for t in self.recv_tasks.values():
            try:
                if t.done() and t.cancelled():
                    return True
            except Exception:  # noqa: BLE001
                pass
        return any(e in ("cancelled", "timeout") for e in self.end.values())

    def _in_send_from_started_before_close(self, it, s) -> bool:
        # an item put by a send_from call that was itself invoked before close returned
        snd = it[0]
        for (s2, a, k, op, d) in self.events:
            if a == snd and op == "send_from" and k == "inv":
                return s2 < self.close_ret_eff
        return False


class ChanSim(Simulator):
    crash_rule = "C12.R4"
    name = "chansim"
    property_id = "C12"
    level = "exploration"
    rules = RULES
    generation_rule = ("Each run draws from the decision tape: scheduling policy (P0 stock FIFO with tape-ordered "
                       "timer ties / P1 external arrivals between any two handles / P2 any ready handle next), "
                       "buffer limit 0/1/2, 1-2 senders (send per item, send_from over an instrumented iterator / async iterator / real generator / real async generator / real list / real tuple; every other item is falsy, "
                       "optionally close=True) x 1-3 items, 1-3 receivers (receive loop, async for, wait_for(receive), "
                       "wait_for(__anext__), the real ServiceStub._send_messages, the real ServiceStub._stream_stream whose response "
                       "side may fail so that the library cancels its own sender task), a closer (idiomatic, at an "
                       "arbitrary point, or never), an optional canceller (arbitrary point, or in the step right "
                       "after a send), an optional post-close sender, all pauses, then a drain phase.")
    nontrivial_rule = ("some channel operation had events of another actor between its invocation and its "
                       "return (i.e. it really blocked or was overtaken).")
    components_real = ["betterproto AsyncChannel", "betterproto ServiceStub._send_messages and _stream_stream",
                       "CPython asyncio Task/Future/Queue/wait_for/timeout"]
    components_stub = ["event-loop scheduler, selector and clock (SimLoop)",
                       "grpclib channel/stream handed to _send_messages and _stream_stream (recording fakes)"]
    assumptions = ["CPython 3.12 asyncio.Queue semantics", "items are never None (but every other one is falsy)",
                   "sampling of schedules, not enumeration"]
    tiers = {
        "quick": dict(runs=240000, chunk=1000, wall_cap=240, det_sample=400),
        "thorough": dict(runs=6000000, chunk=2000, wall_cap=1500, det_sample=5000),
    }
    expected_probes = ["probe:cancel-landed-between-wakeup-and-resumption",
                       "probe:close-with-receiver-inside-get", "probe:receive-on-done-channel",
                       "fault:cancel-blocked-receiver", "fault:timeout-of-blocked-receiver",
                       "probe:sender-mixes-send-and-send_from", "probe:sender-closes-right-after-its-last-send"]

    def execute(self, tape, trace, stats):
        return _Run(tape, trace, stats).go()
