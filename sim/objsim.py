"""objsim — single-actor object-history simulators.

C07 (OneofSim): a generated operation-and-fault history over one live message with several oneof
groups, checked step by step against a tiny executable reference model.  Operations include
*interrupted* loads (the stream raises EIO at the k-th read, or ends inside a field) and *restarts
from the durable form* (copy, deepcopy, pickle, FromString(bytes), from_dict(to_dict)).

One actor, no scheduler, no clock - said plainly.  What the technique contributes is the
history-vs-model oracle, the interrupted-operation faults and seeded search with minimised replay.
"""
from __future__ import annotations

import base64
import copy
import io
import pickle
import struct
from datetime import datetime, timedelta, timezone
from typing import Any, Callable, Dict, List, Optional, Tuple

from . import repo  # noqa: F401
import betterproto
from . import schemas, wire
from .engine import Simulator, Violation
from .schemas import Color, Empty, Leaf, Node, Oneofs, Presence, Sink
from .simfile import RHandle, SimFile
from .valgen import class_info, short

RULES_C07 = {
    "C07.O1": "which_one_of names the member set last (or none)",
    "C07.O2": "reading the selected member gives its value; reading any other member of the group raises AttributeError",
    "C07.O3": "the encoding contains the selected member and no other member of the group (also when the value is the default)",
    "C07.O4": "the dict/JSON output contains the selected member and no other member of the group",
}


def _camel(name: str) -> str:
    parts = name.split("_")
    return parts[0] + "".join(p.capitalize() for p in parts[1:])


class Member:
    def __init__(self, name, number, group, variants):
        self.name = name
        self.number = number
        self.group = group
        self.variants = variants     # list of (factory, wire-bytes-of-the-occurrence, json value); [0] is the default


def _leaf_wire(x=0, s=""):
    out = b""
    if x:
        out += wire.f_varint(1, x)
    if s:
        out += wire.f_len(2, s.encode())
    return out


def _node_wire(v=0, name=""):
    out = b""
    if v:
        out += wire.f_varint(1, wire.zigzag(v))
    if name:
        out += wire.f_len(5, name.encode())
    return out


def _mk(cls, **kw):
    return lambda: cls(**kw)


def _const(v):
    return lambda: v


ONEOFS_MEMBERS = [
    Member("c_int", 2, "choice", [(_const(0), wire.f_varint(2, 0), 0), (_const(5), wire.f_varint(2, 5), 5),
                                  (_const(-1), wire.f_varint(2, -1), -1)]),
    Member("c_str", 3, "choice", [(_const(""), wire.f_len(3, b""), ""), (_const("hi"), wire.f_len(3, b"hi"), "hi"),
                                  (_const("ünï"), wire.f_len(3, "ünï".encode()), "ünï")]),
    Member("c_bytes", 4, "choice", [(_const(b""), wire.f_len(4, b""), ""),
                                    (_const(b"\x00\x01"), wire.f_len(4, b"\x00\x01"), base64.b64encode(b"\x00\x01").decode())]),
    Member("c_enum", 5, "choice", [(_const(Color.ZERO), wire.f_varint(5, 0), "ZERO"), (_const(Color.RED), wire.f_varint(5, 1), "RED"),
                                   (_const(Color.BLUE), wire.f_varint(5, 5), "BLUE")]),
    Member("c_leaf", 6, "choice", [(_mk(Leaf), wire.f_len(6, b""), {}), (_mk(Leaf, x=3), wire.f_len(6, _leaf_wire(x=3)), {"x": 3}),
                                   (_mk(Leaf, s="q"), wire.f_len(6, _leaf_wire(s="q")), {"s": "q"})]),
    Member("c_bool", 7, "choice", [(_const(False), wire.f_varint(7, 0), False), (_const(True), wire.f_varint(7, 1), True)]),
    Member("a_sint", 8, "alt", [(_const(0), wire.f_varint(8, 0), 0), (_const(-3), wire.f_varint(8, wire.zigzag(-3)), -3),
                                (_const(7), wire.f_varint(8, wire.zigzag(7)), 7)]),
    Member("a_empty", 9, "alt", [(_mk(Empty), wire.f_len(9, b""), {})]),
    Member("a_double", 10, "alt", [(_const(0.0), wire.f_i64(10, wire.pack_f64(0.0)), 0.0),
                                   (_const(1.5), wire.f_i64(10, wire.pack_f64(1.5)), 1.5),
                                   (_const(-2.25), wire.f_i64(10, wire.pack_f64(-2.25)), -2.25)]),
    Member("t_node", 11, "third", [(_mk(Node), wire.f_len(11, b""), {}), (_mk(Node, v=2), wire.f_len(11, _node_wire(v=2)), {"v": "2"}),
                                   (_mk(Node, name="n"), wire.f_len(11, _node_wire(name="n")), {"name": "n"})]),
    Member("t_fixed", 12, "third", [(_const(0), wire.f_i32(12, struct.pack("<I", 0)), 0), (_const(7), wire.f_i32(12, struct.pack("<I", 7)), 7),
                                    (_const(2**32 - 1), wire.f_i32(12, struct.pack("<I", 2**32 - 1)), 2**32 - 1)]),
]
ONEOFS_PLAIN = [
    ("before", [(_const(4), wire.f_varint(1, 4), 4), (_const(0), wire.f_varint(1, 0), 0)]),
    ("after", [(_const("z"), wire.f_len(13, b"z"), "z")]),
    ("plain_leaf", [(_mk(Leaf, x=1), wire.f_len(14, _leaf_wire(x=1)), {"x": 1}), (_mk(Leaf), wire.f_len(14, b""), {})]),
]
SINK_MEMBERS = [
    Member("pick_a", 7, "pick", [(_const(0), wire.f_varint(7, 0), "0"), (_const(9), wire.f_varint(7, 9), "9"),
                                 (_const(-1), wire.f_varint(7, -1), "-1")]),
    Member("pick_b", 8, "pick", [(_mk(Presence), wire.f_len(8, b""), {}),
                                 (_mk(Presence, plain=4), wire.f_len(8, wire.f_varint(13, 4)), {"plain": 4})]),
]
SINK_PLAIN = [
    ("id", [(_const(3), wire.f_varint(6, 3), "3")]),
    ("tags", [(lambda: ["t"], wire.f_len(9, b"t"), ["t"])]),
]
_EPOCH = datetime(1970, 1, 1, tzinfo=timezone.utc)
EXOTIC_MEMBERS = [
    # well-known types, a field-less message and a scalar side by side in one group
    Member("k_ts", 8, "kind", [(_const(_EPOCH), wire.f_len(8, b""), "1970-01-01T00:00:00Z"),
                               (_const(_EPOCH + timedelta(seconds=1)), wire.f_len(8, wire.f_varint(1, 1)), "1970-01-01T00:00:01Z"),
                               (_const(_EPOCH + timedelta(microseconds=5)), wire.f_len(8, wire.f_varint(2, 5000)), "1970-01-01T00:00:00.000005Z")]),
    Member("k_dur", 9, "kind", [(_const(timedelta(0)), wire.f_len(9, b""), "0.000s"),
                                (_const(timedelta(seconds=2)), wire.f_len(9, wire.f_varint(1, 2)), "2.000s")]),
    Member("k_void", 10, "kind", [(_mk(Empty), wire.f_len(10, b""), {})]),
    Member("k_uint", 11, "kind", [(_const(0), wire.f_varint(11, 0), "0"), (_const(7), wire.f_varint(11, 7), "7"),
                                  (_const(2**64 - 1), wire.f_varint(11, 2**64 - 1), str(2**64 - 1))]),
    # a group whose members are separated by another field in the declaration
    Member("s_a", 17, "split", [(_const(0), wire.f_varint(17, 0), 0), (_const(4), wire.f_varint(17, 4), 4)]),
    Member("s_b", 19, "split", [(_const(""), wire.f_len(19, b""), ""), (_const("w"), wire.f_len(19, b"w"), "w")]),
]
EXOTIC_PLAIN = [
    ("last", [(_const(9), wire.f_varint(536870911, 9), 9)]),
    ("mid", [(_const(6), wire.f_varint(18, 6), 6)]),
    ("r_void", [(lambda: [Empty()], wire.f_len(15, b""), [{}])]),
    ("w_uint32", [(_const(0), wire.f_len(6, b""), 0), (_const(3), wire.f_len(6, wire.f_varint(1, 3)), 3)]),
]
UNKNOWN = [wire.f_varint(999, 1), wire.f_len(998, b"\x08\x05"), wire.f_i32(997, b"abcd")]

SPECS = {Oneofs: (ONEOFS_MEMBERS, ONEOFS_PLAIN), Sink: (SINK_MEMBERS, SINK_PLAIN), schemas.Exotic: (EXOTIC_MEMBERS, EXOTIC_PLAIN)}


class _Any:
    """Model value 'not pinned down by the statement' (e.g. a message member merged by a decode-into)."""
    def __repr__(self):
        return "<any value>"


ANY = _Any()


def _is_msg(mem) -> bool:
    # a message on the wire: betterproto messages and the well-known types rendered as datetime / timedelta
    return isinstance(mem.variants[0][0](), (betterproto.Message, datetime, timedelta))


def _harness_origin(e: BaseException) -> bool:
    tb, last = e.__traceback__, None
    while tb is not None:
        last, tb = tb, tb.tb_next
    if last is None:
        return False
    import os
    here = os.path.dirname(os.path.abspath(__file__))
    return os.path.abspath(last.tb_frame.f_code.co_filename).startswith(here)


def _eqv(a, b) -> bool:
    if a is ANY or b is ANY:
        return True
    try:
        return type(a) is type(b) and a == b if not isinstance(a, betterproto.Enum) else a == b
    except Exception:  # noqa: BLE001
        return False


class FaultyStream:
    """A stream over `data` whose k-th read() raises EIO (or which is simply cut)."""

    def __init__(self, data: bytes, fail_at_read: Optional[int]):
        self.s = io.BytesIO(data)
        self.k = fail_at_read
        self.reads = 0
        self.failed = False

    def read(self, n=-1):
        if self.k is not None and self.reads == self.k:
            self.failed = True
            raise OSError(5, "Input/output error (injected)")
        self.reads += 1
        return self.s.read(n)


class _OneofRun:
    def __init__(self, tape, trace, stats):
        self.tape, self.trace, self.stats = tape, trace, stats
        self.cls = tape.choice([Oneofs, Oneofs, Sink, schemas.Exotic], "cls")
        self.members, self.plain = SPECS[self.cls]
        self.by_name = {m.name: m for m in self.members}
        self.groups: Dict[str, List[Member]] = {}
        for mem in self.members:
            self.groups.setdefault(mem.group, []).append(mem)
        # up to two live objects: after a restart-by-copy the source object stays alive as a sibling
        # with its own model, so that a copy and its original are observed independently
        self.nested_groups: Dict[str, List[Member]] = {}
        for mem in ONEOFS_MEMBERS:
            self.nested_groups.setdefault(mem.group, []).append(mem)
        self.live: List[Dict[str, Any]] = [dict(m=None, sel={g: None for g in self.groups}, val={},
                                                nested=self._fresh_nested())]
        self.cur = 0
        self.steps = 0

    m = property(lambda self: self.live[self.cur]["m"], lambda self, v: self.live[self.cur].__setitem__("m", v))
    sel = property(lambda self: self.live[self.cur]["sel"], lambda self, v: self.live[self.cur].__setitem__("sel", v))
    val = property(lambda self: self.live[self.cur]["val"], lambda self, v: self.live[self.cur].__setitem__("val", v))

    # ---- model helpers ----------------------------------------------------------------------
    def _fresh_nested(self):
        """Model of the oneof groups of the nested message Sink.o (None: not tracked, e.g. shared by a shallow copy)."""
        if self.cls is not Sink:
            return None
        return dict(sel={g: None for g in self.nested_groups}, val={})

    def _reset(self):
        self.sel = {g: None for g in self.groups}
        self.val = {}
        self.live[self.cur]["nested"] = self._fresh_nested()

    def _select(self, mem: Member, value):
        self.sel[mem.group] = mem.name
        self.val[mem.name] = value

    def _draw_member_variant(self, label="member"):
        mem = self.tape.choice(self.members, label)
        k = self.tape.draw(len(mem.variants), "variant")
        return mem, k

    def _occurrences(self):
        """A crafted list of occurrences: ('m', Member, k) | ('p', name, variant) | ('u', bytes)."""
        t = self.tape
        out = []
        seen_msg = set()
        for _ in range(t.draw(6, "n_occ")):
            kind = t.weighted([5, 2, 2, 1], "occ-kind")
            if kind == 3:
                # the NUMBER of a member under a wire type its declared type cannot have: not an occurrence of the
                # member (C17: kept as an unknown field) - it selects nothing and deselects nothing
                mem = t.choice(self.members, "mismatch-member")
                fits = mem.variants[0][1][0] & 7
                wt = t.choice([w for w in (wire.VARINT, wire.I64, wire.LEN, wire.I32) if w != fits], "mismatch-wt")
                pay = {wire.VARINT: b"\x05", wire.I64: b"\x01" + b"\x00" * 7, wire.LEN: b"\x03abc",
                       wire.I32: b"\x02\x00\x00\x00"}[wt]
                out.append(("u", wire.tag(mem.number, wt) + pay))
                self.stats["probe:member-number-under-a-non-fitting-wire-type"] += 1
                continue
            if kind == 0:
                mem, k = self._draw_member_variant("occ-member")
                if _is_msg(mem):
                    if mem.name in seen_msg:
                        continue           # repeated message-typed member: merge semantics, a C01/C02 matter
                    seen_msg.add(mem.name)
                out.append(("m", mem, k))
            elif kind == 1:
                name, variants = t.choice(self.plain, "occ-plain")
                out.append(("p", name, t.choice(variants, "occ-plain-variant")))
            else:
                out.append(("u", t.choice(UNKNOWN, "occ-unknown")))
        return out

    @staticmethod
    def _wire_of(occ) -> bytes:
        if occ[0] == "m":
            return occ[1].variants[occ[2]][1]
        if occ[0] == "p":
            return occ[2][1]
        return occ[1]

    def _apply_occurrences(self, occs):
        for occ in occs:
            if occ[0] == "m":
                mem = occ[1]
                if _is_msg(mem) and self.sel[mem.group] == mem.name:
                    # decoding into an object whose selected member is this very message: the statement
                    # (about selection) does not say whether the value is replaced or merged
                    self._select(mem, ANY)
                    self.stats["probe:decode-into-selected-message-member"] += 1
                else:
                    self._select(mem, mem.variants[occ[2]][0]())

    # ---- operations ---------------------------------------------------------------------------
    def op_construct(self):
        t = self.tape
        kwargs = {}
        self._reset()
        desc = []
        listed: Dict[str, List[Tuple[Optional[str], Any]]] = {g: [] for g in self.groups}
        for g, mems in self.groups.items():
            k = t.draw(len(mems) + 1, "ctor-member")
            if k:
                mem = mems[k - 1]
                v = t.draw(len(mem.variants), "variant")
                kwargs[mem.name] = mem.variants[v][0]()
                listed[g].append((mem.name, mem.variants[v][0]()))
                desc.append(f"{mem.name}=#{v}")
                if len(mems) > 1 and t.draw(6, "ctor-second-member") == 5:
                    # two members of one group in one constructor call: which of them is "set last" is not
                    # defined (keyword order? declaration order?), so either may be selected - or the call
                    # rejected; but exclusivity holds whatever was picked
                    mem2 = t.choice([m2 for m2 in mems if m2 is not mem], "ctor-member2")
                    v2 = t.draw(len(mem2.variants), "variant")
                    kwargs[mem2.name] = mem2.variants[v2][0]()
                    listed[g].append((mem2.name, mem2.variants[v2][0]()))
                    desc.append(f"{mem2.name}=#{v2}")
                    self.stats["probe:constructor-given-two-members-of-a-group"] += 1
        for name, variants in self.plain:
            if t.draw(3, "ctor-plain") == 2:
                kwargs[name] = variants[0][0]()
        what = f"construct({', '.join(desc)})"
        try:
            self.m = self.cls(**kwargs)
        except Exception as e:  # noqa: BLE001
            if not any(len(v) >= 2 for v in listed.values()) or _harness_origin(e):
                raise
            self.stats["probe:constructor-rejected-two-members-of-a-group"] += 1
            self.m = self.cls()
            return what + f" -> raised {type(e).__name__}; fresh empty object instead"
        for g in self.groups:
            self._adopt(g, listed[g] or [(None, None)], what)
        return what

    def op_set_member(self):
        mem, k = self._draw_member_variant()
        value = mem.variants[k][0]()
        setattr(self.m, mem.name, value)
        self._select(mem, mem.variants[k][0]())
        if k == 0:
            self.stats["probe:member-assigned-its-default-value"] += 1
        return f"set {mem.name}=#{k}"

    def op_nested_set(self):
        """Assign a oneof member of the NESTED message Sink.o in place (through whichever live object is current):
        a deep copy / unpickled copy and its original must not see each other's nested selections."""
        nm = self.live[self.cur]["nested"]
        if nm is None:
            return self.op_set_member()
        mem = self.tape.choice(ONEOFS_MEMBERS, "nested-member")
        k = self.tape.draw(len(mem.variants), "variant")
        sub = self.m.o
        setattr(sub, mem.name, mem.variants[k][0]())
        if self.m.o is not sub:
            # an implementation whose lazily created default is not attached to the parent by the read: what
            # was assigned went to a detached object - C07 says nothing about that; stop tracking the nested message
            self.live[self.cur]["nested"] = None
            self.stats["recorded:lazy-default-not-attached-by-read"] += 1
            return f"set o.{mem.name}=#{k} (on a detached default; nested message no longer tracked)"
        nm["sel"][mem.group] = mem.name
        nm["val"][mem.name] = mem.variants[k][0]()
        self.stats["probe:nested-oneof-member-assigned-in-place"] += 1
        return f"set o.{mem.name}=#{k}"

    def op_set_plain(self):
        name, variants = self.tape.choice(self.plain, "plain")
        setattr(self.m, name, self.tape.choice(variants, "plain-variant")[0]())
        return f"set plain {name}"

    def op_parse(self):
        occs = self._occurrences()
        data = b"".join(self._wire_of(o) for o in occs)
        fresh = self.tape.draw(2, "parse-fresh")
        how = self.tape.draw(3, "parse-how")
        if fresh:
            self._reset()
            target = self.cls()
        else:
            target = self.m
        if how == 0:
            self.m = target.parse(data)
        elif how == 1:
            self.m = target.load(io.BytesIO(data))
        else:
            self.m = target.load(io.BytesIO(wire.enc_varint(len(data)) + data), betterproto.SIZE_DELIMITED)
        self._apply_occurrences(occs)
        n_mem = sum(1 for o in occs if o[0] == "m")
        if n_mem >= 2:
            self.stats["probe:decode-with-several-members"] += 1
        return f"parse{'-fresh' if fresh else '-into'}[{how}]({self._occ_desc(occs)})"

    @staticmethod
    def _occ_desc(occs) -> str:
        out = []
        for o in occs:
            if o[0] == "m":
                out.append(f"{o[1].name}#{o[2]}")
            elif o[0] == "p":
                out.append(o[1])
            else:
                out.append("unk")
        return " ".join(out)

    def op_from_dict(self):
        t = self.tape
        form = t.draw(3, "dict-form")      # 0 class form, 1 instance form on a fresh object, 2 instance form on the live object
        d: Dict[str, Any] = {}
        picked: List[Tuple[Member, int]] = []
        per_group_limit = 1 if (form != 2 and t.draw(4, "class-form-several?") != 3) else 3
        for g, mems in self.groups.items():
            for _ in range(t.draw(per_group_limit + 1, "dict-n")):
                mem = t.choice(mems, "dict-member")
                if any(p[0].name == mem.name for p in picked):
                    continue
                k = t.draw(len(mem.variants), "variant")
                picked.append((mem, k))
        for name, variants in self.plain:
            if t.draw(3, "dict-plain") == 2:
                d[_camel(name) if t.draw(2, "casing") else name] = copy.deepcopy(variants[0][2])
        for mem, k in picked:
            key = _camel(mem.name) if t.draw(2, "casing") else mem.name
            d[key] = copy.deepcopy(mem.variants[k][2])
        null_mem = None
        if t.draw(4, "dict-none") == 3:
            mem = t.choice(self.members, "none-member")
            if mem.name not in d and _camel(mem.name) not in d:
                d[_camel(mem.name)] = None           # JSON null
                null_mem = mem
        per_group: Dict[str, List[Tuple[Member, int]]] = {g: [] for g in self.groups}
        for mem, k in picked:
            per_group[mem.group].append((mem, k))
        ambiguous = any(len(v) >= 2 for v in per_group.values())
        before = {g: (self.sel[g], self.val.get(self.sel[g])) for g in self.groups}
        raised = None
        try:
            if form == 0:
                self._reset()
                self.m = self.cls.from_dict(d)
            elif form == 1:
                self._reset()
                self.m = self.cls().from_dict(d)
            else:
                self.m = self.m.from_dict(d)
        except Exception as e:  # noqa: BLE001
            if not ambiguous or _harness_origin(e):
                raise
            # a dict naming two members of one oneof has no defined meaning (the reference JSON parser
            # rejects it): raising is as good an answer as picking one
            raised = type(e).__name__
            self.stats["probe:from_dict-rejected-two-members-of-a-group"] += 1
            if form != 2:
                # the class form / the fresh instance never came into being: go on with a fresh empty object
                # (the model was reset before the call), as op_construct does
                self.m = self.cls()
                return f"from_dict[{form}]({', '.join(f'{k}' for k in d)}) -> raised {raised}; fresh empty object instead"
        desc = f"from_dict[{form}]({', '.join(f'{k}' for k in d)})" + (f" -> raised {raised}" if raised else "")
        for g in self.groups:
            listed = per_group[g]
            if form != 2:
                prev = (None, None)
            else:
                prev = before[g]
            cands: List[Tuple[Optional[str], Any]] = []
            for mem, k in listed:
                merged = form == 2 and _is_msg(mem) and before[g][0] == mem.name
                cands.append((mem.name, ANY if merged else mem.variants[k][0]()))
            if raised is not None:
                allowed = [prev] + cands
            elif len(listed) >= 2:
                allowed = cands                      # which of them counts as "set last" is not defined
            elif len(listed) == 1:
                allowed = cands
            else:
                allowed = [prev]
                if null_mem is not None and null_mem.group == g and prev[0] == null_mem.name:
                    allowed.append((None, None))     # null for the selected member: ignored or cleared, either is JSON-conformant
                    self.stats["probe:json-null-for-the-selected-member"] += 1
            self._adopt(g, allowed, desc)
        return desc

    def _adopt(self, g: str, allowed, what: str) -> None:
        """The model takes over whichever of the `allowed` (member, value) pairs the object reports."""
        if len(allowed) == 1:
            name, v = allowed[0]
            self.sel[g] = name
            if name:
                self.val[name] = v
            return
        try:
            name, v = betterproto.which_one_of(self.m, g)
        except Exception as e:  # noqa: BLE001
            raise Violation("C07.O1", f"which_one_of-raised-{type(e).__name__}", f"after {what}: {e}")
        name = name or None
        ok = [a for a in allowed if a[0] == name and (name is None or _eqv(a[1], v))]
        if not ok:
            raise Violation("C07.O1", "wrong-member",
                            f"after {what}: group {g} reports {name}={v!r}; possible were {allowed}")
        self.sel[g] = name
        if name:
            self.val[name] = sorted(ok, key=lambda a: a[1] is ANY)[0][1]

    def op_restart(self):
        kind = self.tape.draw(5, "restart")
        m = self.m
        if kind == 0:
            new = copy.copy(m)
        elif kind == 1:
            new = copy.deepcopy(m)
        elif kind == 2:
            new = pickle.loads(pickle.dumps(m))
        elif kind == 3:
            new = self.cls.FromString(bytes(m))
        else:
            new = self.cls.from_dict(m.to_dict())
        src = self.live[self.cur]
        model_vals = {}
        for k, v in src["val"].items():
            mem = self.by_name[k]
            # a fresh, equal value for the copy's model (never share objects between the two models)
            if v is ANY:
                model_vals[k] = ANY
                continue
            idx = next((i for i, var in enumerate(mem.variants) if _eqv(var[0](), v)), None)
            model_vals[k] = mem.variants[idx][0]() if idx is not None else copy.deepcopy(v)
        nested = None
        if src.get("nested") is not None:
            if kind == 0:
                # a shallow copy shares the nested message object (once it exists): stop tracking it on both sides
                src["nested"] = None
            else:
                nested = dict(sel=dict(src["nested"]["sel"]), val={})
                for k2, v2 in src["nested"]["val"].items():
                    mem2 = next(mm for mm in ONEOFS_MEMBERS if mm.name == k2)
                    idx2 = next((i for i, var in enumerate(mem2.variants) if _eqv(var[0](), v2)), 0)
                    nested["val"][k2] = mem2.variants[idx2][0]()
        fork = dict(m=new, sel=dict(src["sel"]), val=model_vals, nested=nested)
        self.live = [src, fork]      # the source stays alive; an older sibling is dropped
        self.cur = 1
        self.stats["probe:copy-and-original-both-alive"] += 1
        self.stats[f"fault:restart-{('copy', 'deepcopy', 'pickle', 'FromString-bytes', 'from_dict-to_dict')[kind]}"] += 1
        return "restart:" + ("copy", "deepcopy", "pickle", "FromString(bytes)", "from_dict(to_dict)")[kind]

    def op_faulted_load(self):
        """An interrupted load: the object survives it; exclusivity must still hold."""
        t = self.tape
        occs = self._occurrences()
        if not occs:
            occs = [("u", UNKNOWN[0])]
        data = b"".join(self._wire_of(o) for o in occs)
        mode = t.draw(2, "fault-mode")
        allowed: Dict[str, List[Tuple[Optional[str], Any]]] = {}
        for g in self.groups:
            prev = self.sel[g]
            allowed[g] = [(prev, self.val.get(prev))]
        if mode == 0:
            cut = t.draw(max(1, len(data)), "cut")
            stream = io.BytesIO(data[:cut])
            pos = 0
            for o in occs:
                start = pos
                pos += len(self._wire_of(o))
                if o[0] != "m":
                    continue
                merged = _is_msg(o[1]) and any(a[0] == o[1].name for a in allowed[o[1].group])
                if pos <= cut:
                    allowed[o[1].group].append((o[1].name, ANY if merged else o[1].variants[o[2]][0]()))
                elif start < cut:
                    # cut inside this occurrence: a decoder may have selected the member before it ran out of
                    # bytes - exclusivity and consistency (O2-O4) are what the statement keeps, not the value
                    allowed[o[1].group].append((o[1].name, ANY))
            what = f"EOF at byte {cut}/{len(data)}"
            self.stats["fault:load-interrupted-by-eof-inside-field"] += 1
        else:
            k = t.draw(8, "eio-at")
            stream = FaultyStream(data, k)
            for o in occs:
                if o[0] == "m":
                    allowed[o[1].group].append((o[1].name, ANY if _is_msg(o[1]) else o[1].variants[o[2]][0]()))
            what = f"EIO at read #{k}"
            self.stats["fault:load-interrupted-by-eio"] += 1
        raised = None
        try:
            self.m.load(stream)
        except Exception as e:  # noqa: BLE001
            if _harness_origin(e) and not isinstance(e, OSError):
                raise
            raised = type(e).__name__
        if raised:
            self.stats["probe:load-failed-half-way"] += 1
        # narrow relaxation: adopt whichever allowed selection the object reports
        for g in self.groups:
            try:
                name, v = betterproto.which_one_of(self.m, g)
            except Exception as e:  # noqa: BLE001
                raise Violation("C07.O1", f"which_one_of-raised-{type(e).__name__}", f"after interrupted load: {e}")
            name = name or None
            ok = [a for a in allowed[g] if a[0] == name and (name is None or _eqv(a[1], v))]
            if not ok:
                raise Violation("C07.O1", "selection-after-interrupted-load",
                                f"after load interrupted by {what} of [{self._occ_desc(occs)}] group {g} reports "
                                f"{name}={v!r}; possible were {[(a[0], a[1]) for a in allowed[g]]}")
            self.sel[g] = name
            if name:
                self.val[name] = sorted(ok, key=lambda a: a[1] is ANY)[0][1]
        return f"faulted-load({what}; {self._occ_desc(occs)}) -> {raised or 'returned'}"

    # ---- oracle -------------------------------------------------------------------------------
    def check(self, after: str):
        keep = self.cur
        try:
            for i in range(len(self.live)):
                self.cur = i
                who = "" if len(self.live) == 1 else (" [object acted on]" if i == keep else " [its sibling: the other of copy/original]")
                self._check_one(after + who)
        finally:
            self.cur = keep

    def _check_one(self, after: str):
        self._check_obj(self.m, self.groups, self.sel, self.val, after)
        nm = self.live[self.cur].get("nested")
        if nm is not None:
            try:
                sub = self.m.o
            except Exception as e:  # noqa: BLE001
                raise Violation("C07.O2", f"read-raised-{type(e).__name__}", f"after {after}: reading .o: {e}")
            self._check_obj(sub, self.nested_groups, nm["sel"], nm["val"], after + " [nested message .o]")

    def _check_obj(self, m, groups, sel, val, after: str):
        for g, mems in groups.items():
            exp = sel[g]
            try:
                name, v = betterproto.which_one_of(m, g)
            except Exception as e:  # noqa: BLE001
                raise Violation("C07.O1", f"which_one_of-raised-{type(e).__name__}", f"after {after}: {e}")
            if (name or None) != exp:
                raise Violation("C07.O1", "wrong-member",
                                f"after {after}: which_one_of({g!r}) names {name!r}, the member set last is {exp!r}")
            if exp is not None and not _eqv(v, val[exp]):
                raise Violation("C07.O1", "wrong-value", f"after {after}: which_one_of({g!r}) = {v!r}, expected {val[exp]!r}")
            for mem in mems:
                try:
                    x = getattr(m, mem.name)
                except AttributeError:
                    if mem.name == exp:
                        raise Violation("C07.O2", "selected-member-unreadable",
                                        f"after {after}: reading selected member {mem.name} raises AttributeError")
                    continue
                except Exception as e:  # noqa: BLE001
                    raise Violation("C07.O2", f"read-raised-{type(e).__name__}", f"after {after}: {mem.name}: {e}")
                if mem.name != exp:
                    raise Violation("C07.O2", "unselected-member-readable",
                                    f"after {after}: group {g} is set to {exp!r} but reading {mem.name} gives {x!r} "
                                    f"instead of raising AttributeError")
                if not _eqv(x, val[exp]):
                    raise Violation("C07.O2", "wrong-value", f"after {after}: {mem.name} reads {x!r}, expected {val[exp]!r}")
        try:
            enc = bytes(m)
            seen = {(f.num, f.wt) for f in wire.parse_fields(enc)}
        except Exception as e:  # noqa: BLE001
            raise Violation("C07.O3", f"bytes-raised-{type(e).__name__}", f"after {after}: {e}")

        class _Nums:
            # a member is on the wire when its number occurs under the wire type of its declared type; the same
            # number under another wire type is an unknown field that was kept (C17), not the member
            def __contains__(self, mem):
                return (mem.number, mem.variants[0][1][0] & 7) in seen
        nums = _Nums()
        for g, mems in groups.items():
            exp = sel[g]
            for mem in mems:
                if mem.name == exp and mem not in nums:
                    raise Violation("C07.O3", "selected-member-not-encoded",
                                    f"after {after}: {mem.name} (#{mem.number}) is selected"
                                    f"{' with its default value' if _eqv(val[exp], mem.variants[0][0]()) else ''} "
                                    f"but missing from the encoding {enc.hex()}")
                if mem.name != exp and mem in nums:
                    raise Violation("C07.O3", "sibling-encoded",
                                    f"after {after}: group {g} is set to {exp!r} but #{mem.number} ({mem.name}) is on the wire: {enc.hex()}")
        for casing, conv in ((betterproto.Casing.CAMEL, _camel), (betterproto.Casing.SNAKE, lambda s: s)):
            try:
                d = m.to_dict(casing=casing)
            except Exception as e:  # noqa: BLE001
                raise Violation("C07.O4", f"to_dict-raised-{type(e).__name__}", f"after {after}: {e}")
            for g, mems in groups.items():
                exp = sel[g]
                for mem in mems:
                    key = conv(mem.name)
                    if mem.name == exp and key not in d:
                        raise Violation("C07.O4", "selected-member-not-in-dict",
                                        f"after {after}: {mem.name} is selected but {key!r} is missing from to_dict() = {d}")
                    if mem.name != exp and key in d:
                        raise Violation("C07.O4", "sibling-in-dict",
                                        f"after {after}: group {g} is set to {exp!r} but to_dict() has {key!r}: {d}")

    # ---- the history ---------------------------------------------------------------------------
    def go(self):
        t = self.tape
        self.trace.append(f"class {self.cls.__name__}")
        n_ops = 1 + t.draw(12, "n_ops")
        desc = self._guard(self.op_construct, "construct")
        self._after(desc)
        faulted = False
        restarts = 0
        for _ in range(n_ops - 1):
            if len(self.live) == 2:
                self.cur = t.draw(2, "target-object")
            k = t.weighted([2, 5, 2, 4, 3, 3, 2, 2], "op")
            op = (self.op_construct, self.op_set_member, self.op_set_plain, self.op_parse, self.op_from_dict,
                  self.op_restart, self.op_faulted_load, self.op_nested_set)[k]
            desc = self._guard(op, op.__name__)
            if k == 6:
                faulted = True
            if k == 5:
                restarts += 1
            self._after(desc)
        return (n_ops >= 2), self.steps, float(self.steps)

    def _guard(self, op: Callable[[], str], name: str) -> str:
        try:
            return op()
        except Violation:
            raise
        except Exception as e:  # noqa: BLE001
            if _harness_origin(e):
                raise          # a bug of this harness: HARNESS (exit 2), never a verdict on the code
            raise Violation("C07.O1", f"{name}-raised-{type(e).__name__}",
                            f"operation {name} raised {type(e).__name__}: {e} (history so far: {self.trace[-6:]})")

    def _after(self, desc: str):
        self.steps += 1
        self.check(desc)
        self.trace.append(f"{self.steps:2d} obj{self.cur} {desc} -> " + " ".join(f"{g}={self.sel[g]}" for g in self.groups))


class OneofSim(Simulator):
    isolate_runs = True
    crash_rule = "C07.O1"
    name = "objsim-oneof"
    property_id = "C07"
    level = "exploration"
    rules = RULES_C07
    generation_rule = ("Each history draws 1-12 operations over one live message (Oneofs: groups of 6/3/2 members with int, "
                       "string, bytes, enum, bool, double, fixed32 and message members; Sink: int64/message group): construct "
                       "with kwargs, assign a member its default or a non-default value, assign a plain field, decode crafted "
                       "bytes (0-5 occurrences, members of the same group in any order, plain and unknown fields interleaved; "
                       "parse / load / load SIZE_DELIMITED; into the live object or a fresh one), from_dict (class form, "
                       "instance form on fresh and on live objects, camel and snake keys, JSON null), restarts (copy, deepcopy, "
                       "pickle, FromString(bytes), from_dict(to_dict); the source object stays alive next to its copy and later "
                       "operations hit either one) and interrupted loads (EIO at the k-th read, EOF inside "
                       "a field). All four observers run after every step.")
    nontrivial_rule = "the history has at least two operations."
    sim_time_unit = "operations"
    components_real = ["betterproto Message (constructor, __setattr__, __getattribute__, parse/load, from_dict, to_dict, "
                       "__copy__, __deepcopy__, __reduce__), which_one_of"]
    components_stub = ["streams handed to load() (EIO / EOF injection)", "independent wire writer/parser (crafted inputs, O3)"]
    assumptions = ["a message-typed member never occurs twice in one crafted payload (merge semantics are a C01/C02 matter)",
                   "a constructor call / a dict naming two members of one group may select either of them or raise (no defined "
                   "'last'); exclusivity is judged on whatever was selected",
                   "single actor: there is no interleaving to explore"]
    tiers = {
        "quick": dict(runs=24000, chunk=250, wall_cap=300, det_sample=150),
        "thorough": dict(runs=3000000, chunk=1000, wall_cap=1500, det_sample=3000),
    }
    expected_probes = ["probe:member-assigned-its-default-value", "probe:decode-with-several-members",
                       "probe:load-failed-half-way", "fault:load-interrupted-by-eio",
                       "fault:load-interrupted-by-eof-inside-field", "fault:restart-pickle", "fault:restart-deepcopy"]

    def prepare(self, tier):
        schemas.warm()

    def adopt(self, state):
        schemas.warm()

    def execute(self, tape, trace, stats):
        return _OneofRun(tape, trace, stats).go()


# =================================================================================================
# C14 — observers are pure; copy, deepcopy and pickle are faithful and independent
# =================================================================================================

import hashlib
import random

from .schemas import Containers, Scalars
from .simfile import WHandle
from .tape import Tape
from .valgen import Gen

RULES_C14 = {
    "C14.Q1": "read-only operations never change what a message subsequently encodes to, compares equal to or reports as present",
    "C14.Q2": "copy, deepcopy and a pickle round trip each yield a message equal to the original that encodes to identical "
              "bytes (unknown fields, oneof selection and nested-message presence included)",
    "C14.Q3": "mutating a deep copy or an unpickled copy never affects the original",
}

C14_CLASSES = [Sink, Presence, Containers, Oneofs, Node, Scalars, Leaf, schemas.Exotic]
RECURSIVE_CLASSES = (Sink, Oneofs, Node)   # a message field leads back to the class itself


def _msg_field(fi) -> bool:
    return (fi.proto_type == "message" and not fi.wraps and isinstance(fi.py_cls, type)
            and issubclass(fi.py_cls, betterproto.Message) and not fi.repeated and not fi.is_map)


def presence_report(m, cls, depth: int = 0) -> list:
    """Only what has presence semantics in proto3: is_set of optional fields, which_one_of of each group,
    serialized_on_wire of each PLAIN (non-optional, non-oneof) sub-message field - recursively."""
    out = []
    ci = class_info(cls)
    for g in sorted(ci.groups):
        name, v = betterproto.which_one_of(m, g)
        out.append(("oneof", g, name))
        if isinstance(v, betterproto.Message) and depth < 3:
            out.append(presence_report(v, type(v), depth + 1))
    for fi in ci.fields:
        if fi.optional:
            out.append(("is_set", fi.name, m.is_set(fi.name)))
            if _msg_field(fi) and depth < 3:
                v = getattr(m, fi.name)
                if v is not None:
                    out.append(presence_report(v, fi.py_cls, depth + 1))
        elif _msg_field(fi) and not fi.group:
            sub = getattr(m, fi.name)
            out.append(("on_wire", fi.name, betterproto.serialized_on_wire(sub)))
            if depth < 3:
                out.append(presence_report(sub, fi.py_cls, depth + 1))
    return out


def build_message(tape):
    """The construction recipe.  Run twice on the same decisions it yields two independent, equal objects."""
    cls, m, how = _build_message(tape)
    if tape.draw(3, "bytearray?") == 2:
        # a bytes field may hold any bytes-like value a caller assigned - a bytearray is the mutable one
        how += _bufferize(m, cls, tape)
    return cls, m, how


def _bufferize(m, cls, tape) -> str:
    holders = [m]
    for fi in class_info(cls).fields:
        if fi.proto_type == "message" and not fi.wraps and not fi.group and not fi.optional and not fi.repeated \
                and not fi.is_map and isinstance(fi.py_cls, type) and issubclass(fi.py_cls, betterproto.Message):
            holders.append(getattr(m, fi.name))
    spots = []
    for h in holders[:4]:
        for fi in class_info(type(h)).fields:
            if fi.proto_type != "bytes" or fi.is_map:
                continue
            try:
                v = getattr(h, fi.name)
            except AttributeError:
                continue
            if fi.repeated:
                spots += [(h, fi.name, i) for i, x in enumerate(v) if type(x) is bytes]
            elif type(v) is bytes:
                spots.append((h, fi.name, None))
    if not spots:
        return ""
    h, name, i = spots[tape.draw(len(spots), "bytearray-where")]
    try:
        if i is None:
            setattr(h, name, bytearray(getattr(h, name)))
        else:
            getattr(h, name)[i] = bytearray(getattr(h, name)[i])
    except (TypeError, ValueError):
        return " (bytearray not accepted in a bytes field)"     # an implementation may insist on bytes
    return f" +bytearray in {type(h).__name__}.{name}"


def _build_message(tape):
    cls = tape.choice(C14_CLASSES, "cls")
    how = tape.draw(4, "build-how")
    g = Gen(tape, unlisted_enums=(how != 2))
    ci = class_info(cls)
    if how == 0:
        return cls, g.message(cls), "constructed"
    if how == 1:
        src = g.message(cls)
        data = bytes(src)
        for _ in range(tape.draw(4, "n-extra")):
            k = tape.draw(3, "extra-kind")
            if k == 0:
                data += tape.choice(UNKNOWN, "extra-unknown")
            elif k == 1:
                subs = [fi for fi in ci.fields if _msg_field(fi)]
                if subs:
                    data += wire.f_len(tape.choice(subs, "extra-empty-sub").number, b"")   # empty but present
            else:
                data = tape.choice(UNKNOWN, "extra-unknown-front") + data
        return cls, cls().parse(data), "decoded"
    if how == 2:
        src = g.message(cls)
        inc = bool(tape.draw(2, "dict-defaults"))
        if cls in RECURSIVE_CLASSES:
            inc = False      # include_default_values on a self-referential schema never ends (documented upstream)
        d = src.to_dict(include_default_values=inc)
        if tape.draw(2, "dict-form"):
            return cls, cls.from_dict(d), "from_dict(class)"
        return cls, cls().from_dict(d), "from_dict(instance)"
    m = g.message(cls)
    for _ in range(1 + tape.draw(3, "n-assign")):
        fi = tape.choice(ci.fields, "assign-field")
        setattr(m, fi.name, g.field_value(fi, 1))
    return cls, m, "constructed+assigned"


class _ObserverRun:
    def __init__(self, tape, trace, stats):
        self.tape, self.trace, self.stats = tape, trace, stats
        self.recursed: Optional[str] = None     # first observer that died of unbounded recursion
        self.partner = None

    def _state(self, x, cls):
        b = bytes(x)
        return b, presence_report(x, cls)

    def observe_somewhere(self, m, cls, k: int) -> str:
        """Observer k on the message itself or - one time in four - on a message NESTED in it (a present one, a
        lazily defaulted one, an element of a repeated field, a map value), one or two levels down: reading a
        part of a message is reading the message, and the root is what gets judged."""
        t = self.tape
        if t.draw(4, "observe-nested?") != 3:
            return self.observe(m, cls, k)
        target, path = m, ""
        for _ in range(1 + t.draw(2, "nested-depth")):
            subs = [fi for fi in class_info(type(target)).fields
                    if fi.proto_type == "message" and not fi.wraps and isinstance(fi.py_cls, type)
                    and issubclass(fi.py_cls, betterproto.Message) or (fi.is_map and fi.map_value_cls is not None
                                                                      and issubclass(fi.map_value_cls, betterproto.Message))]
            if not subs:
                break
            fi = t.choice(subs, "nested-field")
            try:
                v = getattr(target, fi.name)
            except AttributeError:
                break                      # an unselected oneof member
            if isinstance(v, list):
                if not v:
                    break
                v = v[t.draw(len(v), "nested-index")]
            elif isinstance(v, dict):
                if not v:
                    break
                v = v[sorted(v, key=repr)[t.draw(len(v), "nested-key")]]
            if not isinstance(v, betterproto.Message):
                break                      # None in an optional field
            target, path = v, path + "." + fi.name
        if target is m:
            return self.observe(m, cls, k)
        keep, self.partner = self.partner, None
        try:
            self.stats["probe:observer-applied-to-a-nested-message"] += 1
            return f"[{path[1:]}] " + self.observe(target, type(target), k)
        finally:
            self.partner = keep

    def observe(self, m, cls, k: int) -> str:
        t = self.tape
        ci = class_info(cls)
        try:
            if k == 0:
                fi = t.choice(ci.fields, "read-field") if ci.fields else None
                if fi is None:
                    return "read(-)"
                try:
                    v = getattr(m, fi.name)
                except AttributeError:
                    return f"read {fi.name} -> AttributeError"
                if isinstance(v, betterproto.Message):
                    sub = class_info(type(v)).fields
                    if sub:
                        f2 = t.choice(sub, "read-sub")
                        try:
                            getattr(v, f2.name)
                        except AttributeError:
                            pass
                        self.stats["probe:read-lazily-defaulted-nested-message"] += 1
                        return f"read {fi.name}.{f2.name}"
                return f"read {fi.name}"
            if k == 1:
                bytes(m)
                return "bytes"
            if k == 2:
                len(m)
                return "len"
            if k == 3:
                m == m  # noqa: B015
                m == cls()  # noqa: B015
                if self.partner is not None:
                    # reading a nested message of the partner (an observer as well) materialises its default,
                    # so that the two operands differ in what is a placeholder and what is not
                    subs = [fi for fi in ci.fields if _msg_field(fi)]
                    if subs and t.draw(2, "partner-read"):
                        try:
                            sub = getattr(self.partner, t.choice(subs, "partner-read-field").name)
                            if isinstance(sub, betterproto.Message) and t.draw(2, "partner-read-deeper"):
                                s2 = [fi for fi in class_info(type(sub)).fields if _msg_field(fi)]
                                if s2:
                                    getattr(sub, s2[0].name)
                        except AttributeError:
                            pass
                    m == self.partner  # noqa: B015
                    self.partner == m  # noqa: B015
                return "=="
            if k == 4:
                bool(m)
                return "bool"
            if k == 5:
                repr(m)
                return "repr"
            if k in (6, 7, 8):
                ck = t.draw(2, "casing")
                casing = (betterproto.Casing.CAMEL, betterproto.Casing.SNAKE)[ck]
                cname = ("CAMEL", "SNAKE")[ck]
                inc = bool(t.draw(2, "include-defaults"))
                if k == 6:
                    m.to_dict(casing=casing, include_default_values=inc)
                    return f"to_dict({cname},{inc})"
                if k == 7:
                    m.to_json(casing=casing, include_default_values=inc)
                    return f"to_json({cname},{inc})"
                self.stats["probe:to_pydict-called"] += 1
                m.to_pydict(casing=casing, include_default_values=inc)
                return f"to_pydict({cname},{inc})"
            if k == 9:
                fi = t.choice(ci.fields, "is_set-field") if ci.fields else None
                if fi:
                    m.is_set(fi.name)
                return "is_set"
            if k == 10:
                for g in ci.groups:
                    betterproto.which_one_of(m, g)
                return "which_one_of"
            if k == 11:
                betterproto.serialized_on_wire(m)
                return "serialized_on_wire"
            if k == 12:
                f = SimFile()
                w = f.writer(fail_at_call=t.draw(5, "dump-fail-at"), partial=t.draw(3, "dump-partial"))
                try:
                    m.dump(w, bool(t.draw(2, "dump-delimited")) and betterproto.SIZE_DELIMITED)
                    return "dump(ok)"
                except OSError:
                    self.stats["fault:dump-interrupted-by-enospc"] += 1
                    return "dump(interrupted by ENOSPC)"
            if k == 13:
                m.dump(io.BytesIO(), betterproto.SIZE_DELIMITED)
                return "dump(delimited)"
        except Exception as e:  # noqa: BLE001
            if _harness_origin(e):
                raise          # a bug of this harness, not an observer's answer
            self.stats["observer-raised:" + type(e).__name__] += 1
            name = ("read", "bytes", "len", "==", "bool", "repr", "to_dict", "to_json", "to_pydict", "is_set",
                    "which_one_of", "serialized_on_wire", "dump", "dump")[k]
            if isinstance(e, RecursionError) and self.recursed is None:
                self.recursed = name
            return f"{name} raised {type(e).__name__}"
        return f"observer#{k}"

    def mutate(self, c, cls, tape=None, count=True) -> str:
        """A burst of mutations (applied to a deep / unpickled copy, or - with a replayed tape - to
        the original and its twin alike)."""
        t = tape if tape is not None else self.tape
        ci = class_info(cls)
        g = Gen(t)
        done = []
        # a mutable buffer held in a bytes field is changed in place first, when there is one
        for fi in ci.fields:
            if fi.proto_type != "bytes" or fi.is_map:
                continue
            try:
                v = getattr(c, fi.name)
            except AttributeError:
                continue
            bufs = [x for x in (v if fi.repeated else [v]) if isinstance(x, bytearray)]
            if bufs and t.draw(3, "buffer-mut-first") != 0:
                bufs[0].extend(b"\x7e")
                done.append(f"{fi.name}: bytearray.extend")
                if count:
                    self.stats["probe:mutated-bytearray-of-copy-in-place"] += 1
        for _ in range(1 + t.draw(4, "n-mut")):
            if not ci.fields:
                break
            fi = t.choice(ci.fields, "mut-field")
            try:
                cur = getattr(c, fi.name)
            except AttributeError:
                cur = AttributeError
            try:
                if fi.is_map and isinstance(cur, dict):
                    kt, vt = fi.map_types
                    if cur and t.draw(2, "map-mut-value") and vt == "message":
                        key = sorted(cur, key=repr)[0]
                        sub = class_info(fi.map_value_cls).fields
                        setattr(cur[key], sub[0].name, g.single(sub[0], 2))
                        done.append(f"{fi.name}[..].{sub[0].name}=…")
                        if count:
                            self.stats["probe:mutated-message-inside-map-of-copy"] += 1
                    else:
                        key = sorted(cur, key=repr)[0] if (cur and t.draw(2, "map-overwrite")) else g.scalar(kt, in_container=True, nonempty_str=True)
                        cur[key] = g.message(fi.map_value_cls, 2) if vt == "message" else g.scalar(vt, fi.map_value_cls, in_container=True)
                        done.append(f"{fi.name}[k]=…")
                elif isinstance(cur, bytearray) and t.draw(2, "buffer-mut"):
                    cur.extend(b"\x7f")          # in place: no __setattr__ of any message is involved
                    done.append(f"{fi.name}.extend")
                    if count:
                        self.stats["probe:mutated-bytearray-of-copy-in-place"] += 1
                elif fi.repeated and isinstance(cur, list) and cur and isinstance(cur[0], bytearray) and t.draw(2, "buffer-mut"):
                    cur[0].extend(b"\x7f")
                    done.append(f"{fi.name}[0].extend")
                    if count:
                        self.stats["probe:mutated-bytearray-of-copy-in-place"] += 1
                elif fi.repeated and isinstance(cur, list):
                    if cur and isinstance(cur[0], betterproto.Message) and t.draw(2, "list-mut-elem"):
                        sub = class_info(type(cur[0])).fields
                        setattr(cur[0], sub[0].name, g.single(sub[0], 2))
                        done.append(f"{fi.name}[0].{sub[0].name}=…")
                        if count:
                            self.stats["probe:mutated-message-inside-list-of-copy"] += 1
                    else:
                        cur.append(g.single(fi, 2, in_container=True))
                        done.append(f"{fi.name}.append")
                elif isinstance(cur, betterproto.Message) and t.draw(2, "nested-mut"):
                    sub = class_info(type(cur)).fields
                    if sub:
                        f2 = t.choice(sub, "nested-field")
                        setattr(cur, f2.name, g.field_value(f2, 2))
                        done.append(f"{fi.name}.{f2.name}=…")
                        if count:
                            self.stats["probe:mutated-nested-message-of-copy"] += 1
                else:
                    setattr(c, fi.name, g.field_value(fi, 1))
                    done.append(f"{fi.name}=…")
            except Exception as e:  # noqa: BLE001
                done.append(f"{fi.name}: {type(e).__name__}")
        return "; ".join(done)

    def go(self):
        tape, trace, stats = self.tape, self.trace, self.stats
        start = len(tape.log)
        try:
            cls, m, how = build_message(tape)
        except Exception as e:  # noqa: BLE001
            stats["skipped:build-raised-" + type(e).__name__] += 1
            trace.append(f"skip: building the message raised {type(e).__name__}: {e}")
            return False, 0, 0.0
        recipe = tape.log[start:]
        _, twin, _ = build_message(Tape.replay(recipe))
        _, self.partner, _ = build_message(Tape.replay(recipe))   # right-hand operand of ==; judged at the end too
        trace.append(f"{cls.__name__} {how}: {short(twin, 200)}")
        steps = 0
        # ---- observers on m; twin is never touched until the end
        n_obs = 1 + tape.draw(10, "n-obs")
        obs_log = []
        for _ in range(n_obs):
            k = tape.weighted([4, 2, 1, 2, 1, 2, 3, 2, 3, 1, 1, 1, 2, 1], "observer")
            obs_log.append(self.observe_somewhere(m, cls, k))
            steps += 1
        trace.append("observers: " + ", ".join(obs_log))
        self._q1(m, twin, cls, "C14.Q1", f"after observers [{', '.join(obs_log)}]")
        # == must be pure for BOTH operands: the message it was compared with is judged as well
        self._q1(self.partner, twin, cls, "C14.Q1", f"the right-hand operand of == after observers [{', '.join(obs_log)}]")
        # ---- copies, in drawn order, possibly chained
        src = m
        copies = []
        for _ in range(1 + tape.draw(3, "n-copies")):
            kind = tape.draw(3, "copy-kind")
            name = ("copy.copy", "copy.deepcopy", "pickle round trip")[kind]
            base = src if not (copies and tape.draw(2, "chain")) else copies[-1][1]
            try:
                if kind == 0:
                    c = copy.copy(base)
                elif kind == 1:
                    c = copy.deepcopy(base)
                else:
                    c = pickle.loads(pickle.dumps(base))
            except Exception as e:  # noqa: BLE001
                sig = f"{name.split()[0]}-raised-{type(e).__name__}"
                if isinstance(e, RecursionError) and self.recursed:
                    sig = f"unbounded-recursion-after:{self.recursed}"
                raise Violation("C14.Q2" if not self.recursed else "C14.Q1", sig,
                                f"{name} of {short(twin)} raised {type(e).__name__}: {e}")
            steps += 1
            stats[f"fault:restart-{name.replace(' ', '-')}"] += 1
            self._q2(c, m, cls, name)
            copies.append((kind, c, name))
        trace.append("copies: " + ", ".join(n for _, _, n in copies))
        # the copies must not have disturbed the original either
        self._q1(m, twin, cls, "C14.Q1", "after copying")
        # ---- mutate deep / unpickled copies; the original must not notice
        for kind, c, name in copies:
            if kind == 0:
                continue          # nothing is demanded of a shallow copy's independence
            try:
                before = bytes(m)
            except Exception as e:  # noqa: BLE001
                raise Violation("C14.Q3", f"bytes-raises-{type(e).__name__}", f"before mutating a {name}: {e}")
            what = self.mutate(c, cls)
            steps += 1
            trace.append(f"mutated {name}: {what}")
            # directly: the original encodes as it did before its copy was touched (the twin comparison below is
            # blind to state that the original, the twin and the copy all share - a per-class singleton, say)
            try:
                after = bytes(m)
            except Exception as e:  # noqa: BLE001
                raise Violation("C14.Q3", f"bytes-raises-{type(e).__name__}", f"after mutating a {name} ({what}): {e}")
            if after != before:
                raise Violation("C14.Q3", "original-changed",
                                f"after mutating a {name} ({what}) the original encodes to {after.hex()[:120]}, before it was "
                                f"{before.hex()[:120]}")
            self._q1(m, twin, cls, "C14.Q3", f"after mutating a {name} ({what})")
        # ---- latent state: the observers must not have left anything behind that shows only later.
        #      Apply the SAME mutation burst to the observed original and to the never-observed twin
        #      (replayed decisions), observe the original once more in between, and compare again.
        for rnd in range(1 + tape.draw(2, "latent-rounds")):
            start = len(tape.log)
            what = self.mutate(m, cls, count=False)
            seg = tape.log[start:]
            what2 = self.mutate(twin, cls, tape=Tape.replay(seg), count=False)
            steps += 1
            if what != what2:
                break        # the two had already diverged in a way the recipe can see; Q1 would have said so
            trace.append(f"same mutations on original and twin: {what}")
            stats["probe:identical-mutations-after-observers"] += 1
            self._q1(m, twin, cls, "C14.Q1", f"after observers [{', '.join(obs_log)}] and then identical mutations "
                                             f"[{what}] on the observed original and on its never-observed twin")
            k = tape.weighted([4, 2, 1, 2, 1, 2, 3, 2, 3, 1, 1, 1, 2, 1], "observer")
            obs_log.append(self.observe_somewhere(m, cls, k))
        return True, steps, float(steps)

    def _q1(self, m, twin, cls, rule: str, when: str):
        try:
            bm = bytes(m)
        except Exception as e:  # noqa: BLE001
            sig = f"bytes-raises-{type(e).__name__}"
            if isinstance(e, RecursionError) and self.recursed:
                sig = f"unbounded-recursion-after:{self.recursed}"
            raise Violation(rule, sig,
                            f"{when}: bytes(original) now raises {type(e).__name__}: {e}; untouched twin: {short(twin)}")
        bt = bytes(twin)
        if bm != bt:
            raise Violation(rule, "encoding-changed",
                            f"{when}: the original now encodes to {bm.hex()[:120]} but an untouched twin built by the same "
                            f"recipe encodes to {bt.hex()[:120]} ({short(twin, 120)})")
        try:
            eq = (m == twin)
        except Exception as e:  # noqa: BLE001
            raise Violation(rule, f"eq-raises-{type(e).__name__}", f"{when}: {e}")
        if not eq:
            raise Violation(rule, "equality-changed", f"{when}: original != untouched twin: {short(m, 140)} vs {short(twin, 140)}")
        pm, pt = presence_report(m, cls), presence_report(twin, cls)
        if pm != pt:
            raise Violation(rule, "presence-changed", f"{when}: presence report {pm} vs untouched twin {pt}")
        # what it "subsequently encodes to" includes the size it announces and its delimited form
        try:
            lm = len(m)
            sm = io.BytesIO()
            m.dump(sm, betterproto.SIZE_DELIMITED)
        except Exception as e:  # noqa: BLE001
            raise Violation(rule, f"len-or-dump-raises-{type(e).__name__}", f"{when}: {e}")
        if lm != len(bm):
            raise Violation(rule, "len-changed", f"{when}: len(original) = {lm} but it encodes to {len(bm)} bytes")
        if sm.getvalue() != wire.enc_varint(len(bm)) + bm:
            raise Violation(rule, "delimited-encoding-changed",
                            f"{when}: dump(SIZE_DELIMITED) of the original writes {sm.getvalue().hex()[:80]}, "
                            f"expected varint({len(bm)}) + {bm.hex()[:60]}")

    def _q2(self, c, m, cls, name: str):
        if type(c) is not cls:
            raise Violation("C14.Q2", "wrong-type", f"{name} returned {type(c).__name__}")
        try:
            bc, bm = bytes(c), bytes(m)
        except Exception as e:  # noqa: BLE001
            raise Violation("C14.Q2", f"bytes-raises-{type(e).__name__}", f"{name}: {e}")
        if bc != bm:
            raise Violation("C14.Q2", f"bytes-differ:{name.split()[0]}",
                            f"{name}: copy encodes to {bc.hex()[:120]}, original to {bm.hex()[:120]} ({short(m, 140)})")
        if not (c == m):
            raise Violation("C14.Q2", f"not-equal:{name.split()[0]}", f"{name}: {short(c, 140)} != {short(m, 140)}")
        pc, pm = presence_report(c, cls), presence_report(m, cls)
        if pc != pm:
            raise Violation("C14.Q2", f"presence-differs:{name.split()[0]}", f"{name}: {pc} vs original {pm}")


class ObserverSim(Simulator):
    isolate_runs = True
    crash_rule = "C14.Q1"
    name = "objsim-observers"
    property_id = "C14"
    recursion_headroom = 260
    level = "exploration"
    rules = RULES_C14
    generation_rule = ("Each history builds a message by a tape-drawn recipe (constructed; decoded from bytes incl. unknown fields "
                       "and empty-but-present sub-messages; from_dict class/instance form; constructed then assigned) and an "
                       "untouched TWIN by replaying the same decisions; applies 1-10 observers to the original (attribute reads "
                       "incl. lazily defaulted nested messages and unselected oneof members, bytes, len, ==, bool, repr, to_dict, "
                       "to_json, to_pydict in both casings and include_default_values, is_set, which_one_of, serialized_on_wire, "
                       "dump, dump interrupted by ENOSPC at the k-th write); then 1-3 copies (copy, deepcopy, pickle; possibly "
                       "chained); then mutation bursts on deep / unpickled copies (scalars, appends, nested fields, map entries, "
                       "messages inside maps and lists).")
    nontrivial_rule = "the recipe produced a message (always, unless building it raised)."
    sim_time_unit = "operations"
    components_real = ["betterproto Message observers, __copy__, __deepcopy__, __reduce__/__getstate__/__setstate__, to_pydict"]
    components_stub = ["stream handed to dump() (ENOSPC injection)"]
    assumptions = ["presence report is limited to what has presence semantics in proto3 (optional is_set, oneof selection, "
                   "serialized_on_wire of plain sub-message fields)", "an observer raising is recorded, not judged",
                   "nothing is demanded of a shallow copy's independence", "single actor: no interleaving to explore"]
    tiers = {
        "quick": dict(runs=14000, chunk=200, wall_cap=300, det_sample=100),
        "thorough": dict(runs=2000000, chunk=1000, wall_cap=1500, det_sample=3000),
    }
    expected_probes = ["probe:read-lazily-defaulted-nested-message", "probe:to_pydict-called",
                       "fault:dump-interrupted-by-enospc", "probe:mutated-message-inside-map-of-copy",
                       "probe:mutated-message-inside-list-of-copy", "probe:mutated-nested-message-of-copy"]

    def prepare(self, tier):
        schemas.warm()

    def adopt(self, state):
        schemas.warm()

    def execute(self, tape, trace, stats):
        return _ObserverRun(tape, trace, stats).go()
